//! C13 driver: one abstract tick array driven through four implementations (Anchor fixed, Anchor
//! dynamic, Pinocchio fixed, Pinocchio dynamic). Behaviours come from TLC (module TickArrayModel:
//! one shortest path per reachable content of the boundary slot set) and from seeded random
//! sequences over all 88 slots with full-width payloads; every update / query is recorded and
//! validated by TLC against module WpTickArray.
use crate::fndrv::Out;
use crate::project::{decode_dynamic_ticks, decode_fixed_ticks, TickRec};
use anchor_lang::Discriminator;
use rand::{Rng, SeedableRng};
use rand_chacha::ChaCha8Rng;
use serde_json::{json, Value};
use std::io::BufRead;
use whirlpool::pinocchio::verif_export::state::whirlpool::tick_array as pta;
use whirlpool::pinocchio::verif_export::state::whirlpool::tick_array::TickArray as _;
use whirlpool::state::{DynamicTickArray, DynamicTickArrayLoader, FixedTickArray, TickArrayType, TickUpdate};

const FIXED_LEN: usize = 8 + 36 + 113 * 88;
const DYN_MAX: usize = 8 + 4 + 32 + 16 + 113 * 88;
const BUF: usize = DYN_MAX + 256;

#[derive(Clone)]
pub struct Arrays {
    pub start: i32,
    pub spacing: u16,
    af: Vec<u64>,
    ad: Vec<u64>,
    pf: Vec<u64>,
    pd: Vec<u64>,
}

fn bytes(v: &Vec<u64>) -> &[u8] {
    unsafe { std::slice::from_raw_parts(v.as_ptr() as *const u8, v.len() * 8) }
}
fn bytes_mut(v: &mut Vec<u64>) -> &mut [u8] {
    unsafe { std::slice::from_raw_parts_mut(v.as_mut_ptr() as *mut u8, v.len() * 8) }
}

fn to_pino(u: &TickUpdate) -> pta::TickUpdate {
    pta::TickUpdate { initialized: u.initialized, liquidity_net: u.liquidity_net, liquidity_gross: u.liquidity_gross, fee_growth_outside_a: u.fee_growth_outside_a, fee_growth_outside_b: u.fee_growth_outside_b, reward_growths_outside: u.reward_growths_outside }
}

fn rec_of_update(u: &TickUpdate) -> TickRec {
    if !u.initialized {
        return TickRec::default();
    }
    TickRec { init: true, net: u.liquidity_net, gross: u.liquidity_gross, fo_a: u.fee_growth_outside_a, fo_b: u.fee_growth_outside_b, ro: u.reward_growths_outside }
}
fn same(a: &TickRec, b: &TickRec) -> bool {
    a.init == b.init && a.net == b.net && a.gross == b.gross && a.fo_a == b.fo_a && a.fo_b == b.fo_b && a.ro == b.ro
}

impl Arrays {
    pub fn new(start: i32, spacing: u16) -> Arrays {
        let wp = [7u8; 32];
        let mk_fixed = || {
            let mut v = vec![0u64; BUF / 8];
            let b = bytes_mut(&mut v);
            b[..8].copy_from_slice(FixedTickArray::DISCRIMINATOR);
            b[8..12].copy_from_slice(&start.to_le_bytes());
            b[FIXED_LEN - 32..FIXED_LEN].copy_from_slice(&wp);
            v
        };
        let mk_dyn = || {
            let mut v = vec![0u64; BUF / 8];
            let b = bytes_mut(&mut v);
            b[..8].copy_from_slice(DynamicTickArray::DISCRIMINATOR);
            b[8..12].copy_from_slice(&start.to_le_bytes());
            b[12..44].copy_from_slice(&wp);
            v
        };
        Arrays { start, spacing, af: mk_fixed(), ad: mk_dyn(), pf: mk_fixed(), pd: mk_dyn() }
    }

    /// apply an update through all four accessors; returns ok flags
    pub fn update(&mut self, tick: i32, u: &TickUpdate) -> [bool; 4] {
        let sp = self.spacing;
        let r0 = std::panic::catch_unwind(std::panic::AssertUnwindSafe(|| {
            let fa: &mut FixedTickArray = bytemuck::from_bytes_mut(&mut bytes_mut(&mut self.af)[8..FIXED_LEN]);
            fa.update_tick(tick, sp, u).is_ok()
        }))
        .unwrap_or(false);
        let r1 = std::panic::catch_unwind(std::panic::AssertUnwindSafe(|| DynamicTickArrayLoader::load_mut(&mut bytes_mut(&mut self.ad)[8..]).update_tick(tick, sp, u).is_ok())).unwrap_or(false);
        let pu = to_pino(u);
        let r2 = std::panic::catch_unwind(std::panic::AssertUnwindSafe(|| {
            let a: &mut pta::fixed_tick_array::MemoryMappedFixedTickArray = unsafe { &mut *(self.pf.as_mut_ptr() as *mut _) };
            a.update_tick(tick, sp, &pu).is_ok()
        }))
        .unwrap_or(false);
        let r3 = std::panic::catch_unwind(std::panic::AssertUnwindSafe(|| {
            let a: &mut pta::dynamic_tick_array::MemoryMappedDynamicTickArray = unsafe { &mut *(self.pd.as_mut_ptr() as *mut _) };
            a.update_tick(tick, sp, &pu).is_ok()
        }))
        .unwrap_or(false);
        [r0, r1, r2, r3]
    }

    fn anchor_tick(t: anchor_lang::Result<whirlpool::state::Tick>) -> Option<TickRec> {
        t.ok().map(|t| TickRec { init: t.initialized, net: t.liquidity_net, gross: t.liquidity_gross, fo_a: t.fee_growth_outside_a, fo_b: t.fee_growth_outside_b, ro: t.reward_growths_outside })
    }
    fn pino_tick(t: whirlpool::pinocchio::Result<&pta::tick::MemoryMappedTick>) -> Option<TickRec> {
        t.ok().map(|t| TickRec { init: t.initialized(), net: t.liquidity_net(), gross: t.liquidity_gross(), fo_a: t.fee_growth_outside_a(), fo_b: t.fee_growth_outside_b(), ro: t.reward_growths_outside() })
    }

    /// get through: AF, AD, PF, PD, and crosswise: AD bytes via Pinocchio, PD bytes via Anchor
    pub fn get(&self, tick: i32) -> [Option<TickRec>; 6] {
        let sp = self.spacing;
        let g = |f: &dyn Fn() -> Option<TickRec>| std::panic::catch_unwind(std::panic::AssertUnwindSafe(f)).unwrap_or(None);
        let af = g(&|| {
            let fa: &FixedTickArray = bytemuck::from_bytes(&bytes(&self.af)[8..FIXED_LEN]);
            Self::anchor_tick(fa.get_tick(tick, sp))
        });
        let ad = g(&|| Self::anchor_tick(DynamicTickArrayLoader::load(&bytes(&self.ad)[8..]).get_tick(tick, sp)));
        let pf = g(&|| {
            let a: &pta::fixed_tick_array::MemoryMappedFixedTickArray = unsafe { &*(self.pf.as_ptr() as *const _) };
            Self::pino_tick(a.get_tick(tick, sp))
        });
        let pd = g(&|| {
            let a: &pta::dynamic_tick_array::MemoryMappedDynamicTickArray = unsafe { &*(self.pd.as_ptr() as *const _) };
            Self::pino_tick(a.get_tick(tick, sp))
        });
        let ad_p = g(&|| {
            let a: &pta::dynamic_tick_array::MemoryMappedDynamicTickArray = unsafe { &*(self.ad.as_ptr() as *const _) };
            Self::pino_tick(a.get_tick(tick, sp))
        });
        let pd_a = g(&|| Self::anchor_tick(DynamicTickArrayLoader::load(&bytes(&self.pd)[8..]).get_tick(tick, sp)));
        [af, ad, pf, pd, ad_p, pd_a]
    }

    /// next initialized tick through the Anchor fixed array, the Anchor dynamic array, and the Anchor dynamic
    /// accessor over the Pinocchio-maintained bytes: Err -> "err", Ok(None) -> "none", Ok(Some(t)) -> t
    pub fn next(&self, tick: i32, a_to_b: bool) -> Vec<Value> {
        let sp = self.spacing;
        let enc = |r: anchor_lang::Result<Option<i32>>| match r {
            Err(_) => json!("err"),
            Ok(None) => json!("none"),
            Ok(Some(t)) => json!(t),
        };
        let c = |f: &dyn Fn() -> Value| std::panic::catch_unwind(std::panic::AssertUnwindSafe(f)).unwrap_or(json!("panic"));
        vec![
            c(&|| {
                let fa: &FixedTickArray = bytemuck::from_bytes(&bytes(&self.af)[8..FIXED_LEN]);
                enc(fa.get_next_init_tick_index(tick, sp, a_to_b))
            }),
            c(&|| enc(DynamicTickArrayLoader::load(&bytes(&self.ad)[8..]).get_next_init_tick_index(tick, sp, a_to_b))),
            c(&|| enc(DynamicTickArrayLoader::load(&bytes(&self.pd)[8..]).get_next_init_tick_index(tick, sp, a_to_b))),
        ]
    }

    /// decoded views (by the harness' own byte decoders) of the four buffers
    pub fn views(&self, table: &[(String, TickRec)]) -> Value {
        let name = |t: &TickRec| table.iter().find(|(_, r)| same(r, t)).map(|(n, _)| n.clone()).unwrap_or("?".into());
        let list = |ticks: &Vec<TickRec>| -> Vec<Value> { ticks.iter().enumerate().filter(|(_, t)| !t.is_zero()).map(|(i, t)| json!([i, if t.init { name(t) } else { "garbage".into() }])).collect() };
        let (_, _, f1) = decode_fixed_ticks(&bytes(&self.af)[..FIXED_LEN]);
        let (_, _, f2) = decode_fixed_ticks(&bytes(&self.pf)[..FIXED_LEN]);
        let d = |v: &Vec<u64>| {
            let b = bytes(v);
            let (_, _, bitmap, ticks, used, wf) = decode_dynamic_ticks(&b[..DYN_MAX + 8]);
            let bits: Vec<usize> = (0..88).filter(|i| (bitmap >> i) & 1 == 1).collect();
            // (bytes beyond the used prefix are outside the account: the rotate of a de-initialization parks the
            //  removed tick at the end of the maximum-length view, i.e. in the loader's realloc padding)
            (list(&ticks), json!({"bitmap": bits, "used": used, "wf": wf}), used)
        };
        let (l_ad, m_ad, u_ad) = d(&self.ad);
        let (l_pd, m_pd, u_pd) = d(&self.pd);
        let used = u_ad.max(u_pd).min(DYN_MAX);
        json!({"af": list(&f1), "pf": list(&f2), "ad": l_ad, "pd": l_pd, "adMeta": m_ad, "pdMeta": m_pd,
               "fixedSame": bytes(&self.af)[..FIXED_LEN] == bytes(&self.pf)[..FIXED_LEN], "dynSame": bytes(&self.ad)[..used] == bytes(&self.pd)[..used]})
    }
}

fn rand_update(r: &mut ChaCha8Rng) -> TickUpdate {
    let wide = |r: &mut ChaCha8Rng| -> u128 {
        match r.gen_range(0..4) {
            0 => r.gen::<u128>() | (1u128 << 127),
            1 => r.gen::<u128>() | (0xffu128 << 120),
            2 => r.gen::<u64>() as u128,
            _ => r.gen::<u128>(),
        }
    };
    TickUpdate { initialized: true, liquidity_net: r.gen::<i128>(), liquidity_gross: wide(r).max(1), fee_growth_outside_a: wide(r), fee_growth_outside_b: wide(r), reward_growths_outside: [wide(r), wide(r), wide(r)] }
}

struct Run<'a> {
    out: &'a mut Out,
    table: Vec<(String, TickRec)>,
    updates: Vec<(String, TickUpdate)>,
}

impl<'a> Run<'a> {
    fn payload(&mut self, r: &mut ChaCha8Rng, fresh: bool, which: usize) -> (String, TickUpdate) {
        if fresh || self.updates.len() <= which {
            let u = rand_update(r);
            let n = format!("P{}", self.updates.len());
            self.table.push((n.clone(), rec_of_update(&u)));
            self.updates.push((n.clone(), u.clone()));
            (n, u)
        } else {
            self.updates[which].clone()
        }
    }
    fn ev_update(&mut self, a: &mut Arrays, tick: i32, name: &str, u: &TickUpdate, probe: bool) {
        let res = a.update(tick, u);
        let v = a.views(&self.table);
        self.out.emit(json!({"k": "ta_update", "tick": tick, "payload": name, "probe": probe, "res": res, "views": v}), res[0], format!("u:{}:{}", name == "none", res[0]));
    }
    fn ev_get(&mut self, a: &Arrays, tick: i32) {
        let g = a.get(tick);
        let table = self.table.clone();
        let enc: Vec<Value> = g
            .iter()
            .map(|x| match x {
                None => json!("err"),
                Some(t) if t.is_zero() => json!("none"),
                Some(t) => json!(table.iter().find(|(_, r)| same(r, t)).map(|(n, _)| n.clone()).unwrap_or("?".into())),
            })
            .collect();
        let ok = g[0].is_some();
        self.out.emit(json!({"k": "ta_get", "tick": tick, "res": enc}), ok, format!("g:{ok}"));
    }
    fn ev_next(&mut self, a: &Arrays, tick: i32, a_to_b: bool) {
        let n = a.next(tick, a_to_b);
        let ok = n[0] != json!("err");
        self.out.emit(json!({"k": "ta_next", "tick": tick, "aToB": a_to_b, "res": n}), ok, format!("n:{a_to_b}:{}", n[0].is_number()));
    }
    fn queries(&mut self, a: &Arrays, r: &mut ChaCha8Rng, slots: &[i32]) {
        let sp = a.spacing as i32;
        for s in slots {
            let t = a.start + s * sp;
            self.ev_get(a, t);
            for d in [0, -1, 1] {
                let q = t + d * (if sp > 1 && r.gen_bool(0.5) { 1 } else { sp });
                self.ev_next(a, q, true);
                self.ev_next(a, q, false);
            }
        }
        // outside the array / unusable ticks
        for t in [a.start - sp, a.start - 1, a.start + 88 * sp, a.start + 88 * sp - 1, a.start + 87 * sp + 1] {
            self.ev_get(a, t);
            self.ev_next(a, t, true);
            self.ev_next(a, t, false);
        }
    }
}

pub const BOUNDARY_SLOTS: [i32; 8] = [0, 1, 62, 63, 64, 65, 86, 87];

/// paths: file with lines `REPLAY [[slotIndex(1-based in BOUNDARY_SLOTS), value 0..2], ...]` printed by TLC
pub fn run(seed: u64, paths: Option<&str>, sample: usize, random_seqs: usize, out: &mut Out) {
    crate::fndrv::quiet_panics();
    let mut r = ChaCha8Rng::seed_from_u64(seed);
    let configs: Vec<(i32, u16)> = vec![(0, 1), (-88 * 64, 64), (88 * 8 * 3, 8), (-444224, 8), (-450560, 128), (439296, 128), (-2894848, 32896)];
    let mut run = Run { out, table: vec![], updates: vec![] };
    // two shared payloads A, B (ids P0, P1)
    let (na, ua) = run.payload(&mut r, true, 0);
    let (nb, ub) = run.payload(&mut r, true, 1);
    if let Some(p) = paths {
        let f = std::io::BufReader::new(std::fs::File::open(p).expect("paths file"));
        let mut all: Vec<Vec<(usize, u8)>> = vec![];
        for line in f.lines() {
            let line = line.unwrap();
            if let Some(i) = line.find("REPLAY ") {
                let v: Value = serde_json::from_str(line[i + 7..].trim().trim_end_matches('"')).expect("REPLAY line");
                let path: Vec<(usize, u8)> = v.as_array().unwrap().iter().map(|e| (e[0].as_u64().unwrap() as usize, e[1].as_u64().unwrap() as u8)).collect();
                all.push(path);
            }
        }
        // seeded sample of the behaviours (all of them when sample >= number of behaviours)
        let n = all.len();
        let chosen: Vec<usize> = if sample >= n { (0..n).collect() } else { (0..sample).map(|_| r.gen_range(0..n)).collect() };
        for (ci, idx) in chosen.iter().enumerate() {
            let (start, spacing) = configs[(ci + seed as usize) % configs.len()];
            let mut a = Arrays::new(start, spacing);
            run.out.emit(json!({"k": "ta_reset", "start": start, "spacing": spacing, "path": all[*idx].len()}), true, "reset".into());
            for (si, v) in all[*idx].iter() {
                let tick = start + BOUNDARY_SLOTS[*si - 1] * spacing as i32;
                let (name, u) = match v {
                    0 => ("none".to_string(), TickUpdate::default()),
                    1 => (na.clone(), ua.clone()),
                    _ => (nb.clone(), ub.clone()),
                };
                run.ev_update(&mut a, tick, &name, &u, false);
            }
            // every edge out of this content, on copies
            for s in BOUNDARY_SLOTS.iter() {
                for v in 0..3 {
                    let mut c = a.clone();
                    let tick = start + s * spacing as i32;
                    let (name, u) = match v {
                        0 => ("none".to_string(), TickUpdate::default()),
                        1 => (na.clone(), ua.clone()),
                        _ => (nb.clone(), ub.clone()),
                    };
                    run.ev_update(&mut c, tick, &name, &u, true);
                }
            }
            run.queries(&a, &mut r, &BOUNDARY_SLOTS);
        }
    }
    // random sequences over all 88 slots with fresh full-width payloads
    for q in 0..random_seqs {
        let (start, spacing) = configs[(q + seed as usize) % configs.len()];
        let mut a = Arrays::new(start, spacing);
        run.out.emit(json!({"k": "ta_reset", "start": start, "spacing": spacing, "path": 0}), true, "reset".into());
        let mut live: Vec<i32> = vec![];
        let len = r.gen_range(5..60);
        for _ in 0..len {
            let slot: i32 = if !live.is_empty() && r.gen_bool(0.5) { live[r.gen_range(0..live.len())] } else { r.gen_range(-1..89) };
            let tick = start + slot * spacing as i32 + if spacing > 1 && r.gen_bool(0.05) { 1 } else { 0 };
            if r.gen_bool(0.35) {
                run.ev_update(&mut a, tick, "none", &TickUpdate::default(), false);
                live.retain(|s| *s != slot);
            } else {
                let (n, u) = run.payload(&mut r, true, 0);
                run.ev_update(&mut a, tick, &n, &u, false);
                if (0..88).contains(&slot) && !live.contains(&slot) {
                    live.push(slot);
                }
            }
            if r.gen_bool(0.3) {
                let s = r.gen_range(0..88);
                run.queries(&a, &mut r, &[s]);
            }
        }
        // keep the payload table small: payloads no longer referenced are dropped at the next reset
        run.table.truncate(2);
        run.updates.truncate(2);
    }
    // the array completely full (88 of 88 slots initialized, in a random order), then modified, queried and emptied again:
    // the last slots sit at the very end of the largest possible encoding
    for q in 0..(random_seqs / 25).max(2) {
        use rand::seq::SliceRandom;
        let (start, spacing) = configs[(q + 3 + seed as usize) % configs.len()];
        let mut a = Arrays::new(start, spacing);
        run.out.emit(json!({"k": "ta_reset", "start": start, "spacing": spacing, "path": 0}), true, "reset".into());
        let mut order: Vec<i32> = (0..88).collect();
        order.shuffle(&mut r);
        if q % 2 == 0 {
            // slot 87 last / first alternately
            order.retain(|s| *s != 87);
            if q % 4 == 0 { order.push(87) } else { order.insert(0, 87) }
        }
        for (n_done, slot) in order.iter().enumerate() {
            let (n, u) = run.payload(&mut r, true, 0);
            run.ev_update(&mut a, start + slot * spacing as i32, &n, &u, false);
            if n_done >= 85 {
                run.queries(&a, &mut r, &[0, 1, 43, 86, 87, *slot]);
            }
        }
        for slot in [87, 86, 0, 44] {
            let (n, u) = run.payload(&mut r, true, 0);
            run.ev_update(&mut a, start + slot * spacing as i32, &n, &u, false);
        }
        run.queries(&a, &mut r, &[0, 63, 64, 86, 87]);
        order.shuffle(&mut r);
        for slot in order.iter().take(r.gen_range(3..88)) {
            run.ev_update(&mut a, start + slot * spacing as i32, "none", &TickUpdate::default(), false);
        }
        run.queries(&a, &mut r, &[0, 86, 87]);
        run.table.truncate(2);
        run.updates.truncate(2);
    }
    run.out.w.flush().unwrap();
}
