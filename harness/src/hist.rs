//! `hist` driver: seeded random histories of the real program, recorded as ndjson traces.
use crate::project::nu;
use crate::rec::{price_of, Recorder};
use crate::world::{PosKind, TokProg, World};
use rand::Rng;
use serde_json::json;

pub const MIN_SQRT_PRICE: u128 = 4295048016;
pub const MAX_SQRT_PRICE: u128 = 79226673515401279992447579055;
pub const MIN_TICK: i32 = -443636;
pub const MAX_TICK: i32 = 443636;

#[derive(Clone, Debug)]
pub struct HistCfg {
    pub seed: u64,
    pub histories: usize,
    pub steps: usize,
    /// token kinds: "spl", "t22", "t22fee"
    pub tokens: String,
    pub rewards: bool,
    pub drain: bool,
    pub crosscheck_every: usize,
    pub dual: bool,
    pub adaptive: bool,
    pub sdk: bool,
}

thread_local! {
    /// forces the next world to start near the maximum price with a narrow spacing (C20 overflow corner)
    pub static FORCE_HIGH: std::cell::Cell<bool> = std::cell::Cell::new(false);
    /// adaptive-fee constants under which the reference walk is informative (non-zero reduction and control
    /// factor, an accumulator cap a few tick groups away)
    pub static AF_BIAS: std::cell::Cell<bool> = std::cell::Cell::new(false);
}

fn log_uniform(w: &mut World, lo_bits: u32, hi_bits: u32) -> u128 {
    let b = w.rng.gen_range(lo_bits..=hi_bits);
    let base = 1u128 << b;
    base + (w.rng.gen::<u128>() % base)
}

fn pick<T: Clone>(w: &mut World, v: &[T]) -> T {
    let i = w.rng.gen_range(0..v.len());
    v[i].clone()
}

pub struct Scenario {
    pub pool: String,
    pub users: Vec<String>,
    pub bounds: Vec<i32>,
    pub full_range_only: bool,
    pub v2_only: bool,
    pub liq_bits: (u32, u32),
    pub rewards: bool,
    /// filter / decay period of an adaptive-fee pool: clock steps are drawn around them
    pub af_periods: Option<(u16, u16)>,
    pub af_group: u16,
}

/// Build a fresh world with one pool; returns the scenario description.
pub fn build_world(seed: u64, tokens: &str, rewards: bool, adaptive: bool, rec: &mut Recorder) -> (World, Scenario) {
    let mut w = World::new(seed);
    let proto = pick(&mut w, &[0u16, 300, 1000, 2500]);
    w.init_config("C1", proto);
    for u in ["U1", "U2", "U3"] {
        w.add_user(u);
    }
    let force_high = FORCE_HIGH.with(|c| c.get());
    let spacing = if force_high { 1u16 } else { pick(&mut w, &[1u16, 8, 64, 64, 128, 32896]) };
    let full_range_only = spacing >= 32768;
    let fee_rate = pick(&mut w, &[0u16, 1, 100, 3000, 3000, 10000, 60000]);
    let ix = w.ix_init_fee_tier("C1", spacing, fee_rate);
    w.must_ix(&ix);
    let keys = w.sorted_keys(3);
    let (prog, fee) = match tokens {
        "spl" => (TokProg::Spl, None),
        "t22" => (TokProg::T22, None),
        _ => (TokProg::T22, Some(())),
    };
    let mut hooked: Vec<String> = vec![];
    for (i, n) in ["A", "B", "R"].iter().enumerate() {
        // (the reward mint charges a transfer fee in half of the transfer-fee worlds with rewards)
        let f = if fee.is_some() && (*n != "R" || (rewards && w.rng.gen_bool(0.5))) {
            let bps = pick(&mut w, &[0u16, 1, 30, 250, 5000, 9999, 10000]);
            let max = pick(&mut w, &[0u64, 1, 1000, 5_000_000, u64::MAX]);
            if w.rng.gen_bool(0.8) { Some((bps, max)) } else { None }
        } else {
            None
        };
        // Token-2022 pool mints sometimes carry a further extension, initialised before or after the transfer-fee config
        // (TLV entries are stored in initialisation order): metadata pointer, interest-bearing, or a transfer hook without
        // a program (admitted only with a token badge)
        let extra: u8 = if prog == TokProg::T22 && *n != "R" && w.rng.gen_bool(0.35) { w.rng.gen_range(1..=4) } else { 0 };
        crate::world::MINT_EXTRA.with(|c| c.set(extra));
        w.add_mint_keyed(n, keys[i], prog.clone(), f);
        crate::world::MINT_EXTRA.with(|c| c.set(0));
        if extra >= 3 {
            hooked.push(n.to_string());
        }
    }
    if !hooked.is_empty() {
        let ix = w.ix_init_config_extension("C1");
        w.must_ix(&ix);
        let ix = w.ix_set_config_feature_flag("C1", true);
        w.must_ix(&ix);
        for m in &hooked {
            let ix = w.ix_init_token_badge("C1", m);
            w.must_ix(&ix);
        }
    }
    for u in ["U1", "U2", "U3", "feeAuthC1", "collectAuthC1", "rewardAuthC1"] {
        for m in ["A", "B", "R"] {
            let amt = if u.starts_with('U') { 1u64 << 60 } else { 0 };
            w.user_token(u, m, amt);
        }
    }
    // start price
    let span = spacing as i32 * 88;
    let t0: i32 = if full_range_only {
        w.rng.gen_range(-200000..200000)
    } else {
        match if force_high { 1 } else { w.rng.gen_range(0..10) } {
            0 => w.rng.gen_range(MIN_TICK + 1..MIN_TICK + 3 * span.min(20000)),
            1 if force_high => w.rng.gen_range(384_000..393_000),
            1 => w.rng.gen_range(MAX_TICK - 3 * span.min(20000)..MAX_TICK - 1),
            _ => w.rng.gen_range(-30000..30000),
        }
    };
    let t0 = t0.clamp(MIN_TICK, MAX_TICK - 1);
    let sp = match w.rng.gen_range(0..3) {
        0 => price_of(t0),
        _ => {
            let (a, b) = (price_of(t0), price_of(t0 + 1));
            a + w.rng.gen::<u128>() % (b - a)
        }
    };
    let v2 = tokens != "spl" || w.rng.gen_bool(0.3);
    let mut af_periods = None;
    let mut af_group = 0u16;
    if adaptive {
        // an adaptive-fee pool with random valid constants
        let divisors: Vec<u16> = (1..=spacing.min(512)).filter(|d| spacing % d == 0).collect();
        let gs = pick(&mut w, &divisors);
        let filter = pick(&mut w, &[1u16, 5, 30, 60]);
        // (a decay period longer than the one-hour maximum age of the reference is valid)
        let decay = filter + pick(&mut w, &[1u16, 10, 120, 600, 600, 4000, 20000]);
        let max_acc_cap = (u32::MAX as u64 / gs as u64).min(u32::MAX as u64) as u32;
        let bias = AF_BIAS.with(|c| c.get());
        let c = crate::world2::AfConstants {
            filter_period: filter,
            decay_period: decay,
            reduction_factor: if bias { pick(&mut w, &[2500u16, 5000, 9999]) } else { pick(&mut w, &[0u16, 1, 500, 5000, 9999]) },
            adaptive_fee_control_factor: if bias { pick(&mut w, &[100u32, 4000, 50000]) } else { pick(&mut w, &[0u32, 1, 100, 4000, 50000, 99999]) },
            max_volatility_accumulator: (if bias { pick(&mut w, &[25_000u32, 35_000, 60_000, 120_000]) } else { pick(&mut w, &[0u32, 10_000, 35_000, 350_000, 3_000_000, max_acc_cap]) }).min(max_acc_cap),
            tick_group_size: gs,
            major_swap_threshold_ticks: (pick(&mut w, &[1u32, 8, 64, 1000]) as i32).min(spacing as i32 * 88) as u16,
        };
        af_periods = Some((c.filter_period, c.decay_period));
        af_group = c.tick_group_size;
        let funder = w.funder;
        let del = w.users["U3"];
        let ix = w.ix_init_adaptive_fee_tier("C1", 1024, spacing, funder, del, fee_rate, &c);
        w.must_ix(&ix);
        let te = if w.rng.gen_bool(0.25) { Some((w.now + pick(&mut w, &[1i64, 50, 5000])) as u64) } else { None };
        let ix = w.ix_init_pool_adaptive("P1", "C1", "A", "B", 1024, spacing, sp, funder, te);
        w.must_ix(&ix);
    } else {
        let ix = if v2 { w.ix_init_pool_v2("P1", "C1", "A", "B", spacing, sp) } else { w.ix_init_pool("P1", "C1", "A", "B", spacing, sp) };
        w.must_ix(&ix);
    }
    w.pools.get_mut("P1").unwrap().dynamic = w.rng.gen_bool(0.5);
    // fee-growth accumulators start anywhere in u128, often just below wrap-around (indistinguishable
    // from a long prior history: no tick or position exists yet)
    {
        let key = w.pools["P1"].key;
        let vals: Vec<u128> = (0..2)
            .map(|_| match w.rng.gen_range(0..4) {
                0 => 0,
                1 => u128::MAX - (w.rng.gen::<u64>() as u128 % 1_000_000_000),
                2 => u128::MAX - (w.rng.gen::<u128>() >> 40),
                _ => w.rng.gen::<u128>(),
            })
            .collect();
        let a = w.bank.accts.get_mut(&key).unwrap();
        let off_a = 8 + 32 + 1 + 2 + 2 + 2 + 2 + 16 + 16 + 4 + 8 + 8 + 32 + 32;
        a.data[off_a..off_a + 16].copy_from_slice(&vals[0].to_le_bytes());
        let off_b = off_a + 16 + 32 + 32;
        a.data[off_b..off_b + 16].copy_from_slice(&vals[1].to_le_bytes());
    }
    // candidate bounds shared between positions
    let mut bounds: Vec<i32> = vec![];
    if full_range_only {
        let lo = (MIN_TICK / spacing as i32) * spacing as i32;
        bounds = vec![lo, -lo];
    } else {
        let base = t0.div_euclid(spacing as i32) * spacing as i32;
        for k in [-200, -90, -88, -45, -10, -3, -2, -1, 0, 1, 2, 3, 10, 44, 87, 88, 89, 200] {
            let t = base + k * spacing as i32;
            if t >= MIN_TICK && t <= MAX_TICK {
                bounds.push(t);
            }
        }
        // array edges
        let s = base.div_euclid(span) * span;
        for t in [s, s + span - spacing as i32, s + span, s - spacing as i32] {
            if t >= MIN_TICK && t <= MAX_TICK && !bounds.contains(&t) {
                bounds.push(t);
            }
        }
        let lo = (MIN_TICK / spacing as i32) * spacing as i32;
        if w.rng.gen_bool(0.3) {
            bounds.push(lo);
            bounds.push(-lo);
        }
        bounds.sort();
        bounds.dedup();
    }
    let liq_hi = pick(&mut w, &[20u32, 40, 50, 64, 80]);
    let sc = Scenario { pool: "P1".into(), users: vec!["U1".into(), "U2".into(), "U3".into()], bounds, full_range_only, v2_only: tokens != "spl", liq_bits: (1, liq_hi), rewards, af_periods, af_group };
    rec.reset(&mut w, json!({"seed": nu(seed as u128), "tokens": tokens, "spacing": spacing, "feeRate": fee_rate, "protoRate": proto}));
    (w, sc)
}

/// Attempts to create tick arrays at start indexes that are not multiples of 88 tick spacings - next to a valid one, and
/// just below the minimum tick, where the left-most array must still sit on the grid - or lie beyond the tick range.
fn bad_tick_array_starts(w: &mut World, sc: &Scenario, rec: &mut Recorder) {
    let s = w.pools[&sc.pool].spacing as i32;
    let span = s * 88;
    let t = w.pool_tick(&sc.pool);
    let good = t.div_euclid(span) * span;
    let leftmost = MIN_TICK.div_euclid(span) * span;
    let cands = [good + 1, good - 1, good + s, good + span / 2, leftmost + s, leftmost + 1, MIN_TICK - 12, MIN_TICK - s, MIN_TICK, leftmost - span, (MAX_TICK.div_euclid(span) + 1) * span, MAX_TICK + 1];
    for _ in 0..3 {
        let start = pick(w, &cands);
        if start.rem_euclid(span) == 0 && start + span > MIN_TICK && start <= MAX_TICK {
            continue; // a valid one
        }
        let mut c = w.clone();
        let dynamic = c.rng.gen_bool(0.5);
        let ix = c.ix_init_tick_array(&sc.pool, start, dynamic);
        rec.exec(&mut c, &ix, false, json!({"probe": true, "what": "invalid_tick_array_start"}));
    }
}

fn open_random_position(w: &mut World, sc: &Scenario, rec: &mut Recorder) {
    if w.rng.gen_bool(0.15) {
        bad_tick_array_starts(w, sc, rec);
    }
    let owner = pick(w, &sc.users);
    let (lo, up) = loop {
        let a = pick(w, &sc.bounds);
        let b = pick(w, &sc.bounds);
        if a < b {
            break (a, b);
        }
        if sc.bounds.len() < 2 {
            return;
        }
    };
    let kinds = [PosKind::Plain, PosKind::Meta, PosKind::TokenExt, PosKind::Bundled];
    let kind = pick(w, &kinds);
    for t in [lo, up] {
        let start = w.ta_start(&sc.pool, t);
        if !w.ta_exists(&sc.pool, start) {
            let dynamic = if w.rng.gen_bool(0.8) { w.pools[&sc.pool].dynamic } else { !w.pools[&sc.pool].dynamic };
            let ix = w.ix_init_tick_array(&sc.pool, start, dynamic);
            rec.exec(w, &ix, true, json!("setup"));
        }
    }
    if kind == PosKind::Bundled {
        let bname = format!("B{}", owner);
        if !w.bundles.contains_key(&bname) {
            let (ix, info) = w.ix_init_bundle(&bname, &owner);
            let ex = rec.exec(w, &ix, true, json!("setup"));
            if ex.ok() {
                w.bundles.insert(bname.clone(), info);
            } else {
                return;
            }
        }
        let idx = pick(w, &[0u16, 1, 7, 8, 63, 64, 255]);
        let (ix, info) = w.ix_open_bundled_position(&bname, idx, &sc.pool, lo, up);
        let ex = rec.exec(w, &ix, false, json!(null));
        if ex.ok() {
            w.positions.insert(info.name.clone(), info);
        }
    } else {
        let (ix, info) = w.ix_open_position(&sc.pool, &owner, lo, up, kind);
        let ex = rec.exec(w, &ix, true, json!(null));
        if ex.ok() {
            w.positions.insert(info.name.clone(), info);
        }
    }
}

/// Grid-style liquidity: a position adjacent to an existing one (sharing a bound as lower/upper)
/// funded with exactly the same liquidity, so that the shared tick has gross > 0 and net = 0.
fn mirror_position(w: &mut World, sc: &Scenario, rec: &mut Recorder, pos: &[String], v2: bool) {
    let src = pick(w, pos);
    let (l, lo, up) = match w.pos_range(&src) {
        Some(x) if x.0 > 0 => x,
        _ => return,
    };
    let above = w.rng.gen_bool(0.5);
    let others: Vec<i32> = sc.bounds.iter().cloned().filter(|b| if above { *b > up } else { *b < lo }).collect();
    if others.is_empty() {
        return;
    }
    let o = pick(w, &others);
    let (nlo, nup) = if above { (up, o) } else { (o, lo) };
    let owner = pick(w, &sc.users);
    for t in [nlo, nup] {
        let start = w.ta_start(&sc.pool, t);
        if !w.ta_exists(&sc.pool, start) {
            let dynamic = w.pools[&sc.pool].dynamic;
            let ix = w.ix_init_tick_array(&sc.pool, start, dynamic);
            rec.exec(w, &ix, true, json!("setup"));
        }
    }
    let kind = pick(w, &[PosKind::Plain, PosKind::TokenExt]);
    let (ix, info) = w.ix_open_position(&sc.pool, &owner, nlo, nup, kind);
    let ex = rec.exec(w, &ix, true, json!("mirror"));
    if !ex.ok() {
        return;
    }
    let name = info.name.clone();
    w.positions.insert(name.clone(), info);
    let ix = w.ix_increase(&name, &owner, l, u64::MAX, u64::MAX, v2);
    rec.exec(w, &ix, false, json!("mirror"));
}

fn open_positions(w: &World) -> Vec<String> {
    w.positions.iter().filter(|(_, x)| w.bank.accts.contains_key(&x.key)).map(|(n, _)| n.clone()).collect()
}

fn random_limit(w: &mut World, sc: &Scenario, pool: &str, a_to_b: bool) -> u128 {
    let sp = w.pool_sqrt_price(pool);
    if w.rng.gen_bool(0.06) {
        // a limit that is NOT on the trade side of the price (the swap must be refused): the price itself, one unit off,
        // a point between the price and the edge of the current tick, the edge itself, or far away
        let t = w.pool_tick(pool);
        let (edge_lo, edge_hi) = (price_of(t.max(MIN_TICK)), price_of((t + 1).min(MAX_TICK)));
        let between = |w: &mut World, a: u128, b: u128| if b > a + 1 { a + 1 + w.rng.gen::<u128>() % (b - a - 1) } else { a };
        let cand = if a_to_b {
            [sp, sp + 1, between(w, sp, edge_hi), edge_hi, price_of((t + 50).min(MAX_TICK))]
        } else {
            [sp, sp.saturating_sub(1), between(w, edge_lo, sp), edge_lo + 1, price_of((t - 50).max(MIN_TICK))]
        };
        let c = cand[w.rng.gen_range(0..cand.len())];
        if c >= MIN_SQRT_PRICE && c <= MAX_SQRT_PRICE && ((a_to_b && c >= sp) || (!a_to_b && c <= sp)) {
            return c;
        }
    }
    if w.rng.gen_bool(0.2) && !sc.bounds.is_empty() {
        // exactly the price of a tick that bounds positions (the swap then stops exactly on that tick)
        let t = pick(w, &sc.bounds);
        let p = price_of(t);
        if (a_to_b && p < sp) || (!a_to_b && p > sp) {
            return p;
        }
    }
    if w.rng.gen_bool(0.12) {
        // strictly inside a tick whose index is a multiple of the tick spacing (tick-group boundary tick)
        let spc = w.pools[pool].spacing as i32;
        let t = w.pool_tick(pool);
        let k = w.rng.gen_range(1..6) * spc;
        let tt = if a_to_b { (t - k).div_euclid(spc) * spc } else { (t + k).div_euclid(spc) * spc };
        if tt > MIN_TICK && tt < MAX_TICK {
            let (a, b) = (price_of(tt), price_of(tt + 1));
            let p = a + 1 + w.rng.gen::<u128>() % (b - a - 1).max(1);
            if (a_to_b && p < sp) || (!a_to_b && p > sp) {
                return p;
            }
        }
    }
    match w.rng.gen_range(0..6) {
        0 | 1 | 2 => 0,
        3 => {
            // a price a few ticks away
            let t = w.pool_tick(pool);
            let d = w.rng.gen_range(1..400);
            let tt = if a_to_b { (t - d).max(MIN_TICK) } else { (t + d).min(MAX_TICK) };
            let p = price_of(tt);
            if (a_to_b && p < sp) || (!a_to_b && p > sp) { p } else { 0 }
        }
        4 => {
            // very close
            let d = w.rng.gen_range(1u128..1_000_000);
            if a_to_b { sp.saturating_sub(d).max(MIN_SQRT_PRICE) } else { (sp + d).min(MAX_SQRT_PRICE) }
        }
        _ => {
            if a_to_b { MIN_SQRT_PRICE } else { MAX_SQRT_PRICE }
        }
    }
}

/// Executes `ix` on a copy of the world and returns the user's token deltas (A, B) and the decoded events,
/// or None when it fails: used to choose caller bounds right at / one off the realised amounts.
fn dry_run(w: &World, sc: &Scenario, owner: &str, ix: &crate::world::Ix) -> Option<(i128, i128, Vec<serde_json::Value>)> {
    let mut c = w.clone();
    let p = &w.pools[&sc.pool];
    let (ma, mb) = (p.mint_a.clone(), p.mint_b.clone());
    let (a0, b0) = (c.token_amount(&c.utok(owner, &ma)) as i128, c.token_amount(&c.utok(owner, &mb)) as i128);
    let ex = c.exec_raw(&ix.instruction());
    if !ex.ok() {
        return None;
    }
    let evs = crate::world::decode_events(&c, &ex);
    Some((c.token_amount(&c.utok(owner, &ma)) as i128 - a0, c.token_amount(&c.utok(owner, &mb)) as i128 - b0, evs))
}
/// a bound at, one below or one above the realised amount, or vacuous
fn near(w: &mut World, realised: u64, vacuous: u64) -> u64 {
    match w.rng.gen_range(0..5) {
        0 => realised,
        1 => realised.saturating_sub(1),
        2 => realised.saturating_add(1),
        3 => realised,
        _ => vacuous,
    }
}

pub fn random_step(w: &mut World, sc: &Scenario, rec: &mut Recorder) {
    let pool = sc.pool.clone();
    let pos = open_positions(w);
    let v2 = sc.v2_only || w.rng.gen_bool(0.5);
    if w.mints["A"].prog == TokProg::T22 && w.rng.gen_bool(0.04) {
        // transfer-fee schedule changes: a new fee takes effect two epochs later; epochs advance
        if w.rng.gen_bool(0.5) {
            let m = pick(w, &["A", "B"]);
            let mi = w.mints[m].clone();
            let has_fee = crate::project::t22_extension_types(&w.bank.accts[&mi.key].data).contains(&1);
            if has_fee {
                let bps = pick(w, &[0u16, 1, 50, 300, 5000, 10000]);
                let max = pick(w, &[0u64, 10, 100_000, u64::MAX]);
                let inst = spl_token_2022::extension::transfer_fee::instruction::set_transfer_fee(&spl_token_2022::ID, &mi.key, &mi.auth, &[], bps, max).unwrap();
                let ix = crate::world::Ix { name: "token_set_transfer_fee".into(), accts: "", metas: inst.accounts.clone(), extra: vec!["mint".into(), "authority".into()], data: inst.data.clone(), args: json!({"mint": m, "bps": bps, "max": nu(max as u128)}), program: inst.program_id };
                rec.exec(w, &ix, true, json!("setup"));
            }
        } else {
            let e = crate::svm::epoch() + w.rng.gen_range(1..3);
            crate::svm::set_epoch(e);
            rec.tick_clock(w, 1);
        }
        return;
    }
    if sc.rewards && w.rng.gen_bool(0.22) {
        reward_step(w, sc, rec, &pos, v2);
        return;
    }
    if sc.af_periods.is_some() && w.rng.gen_bool(0.03) {
        // the fee authority changes some of the pool's adaptive-fee constants (often lowering the accumulator
        // cap below what is currently stored): the stored variables must be reset
        let spacing = w.pools[&pool].spacing;
        let divisors: Vec<u16> = (1..=spacing.min(512)).filter(|d| spacing % d == 0).collect();
        let filter = pick(w, &[1u16, 5, 30, 60]);
        let c = crate::world2::AfConstants {
            filter_period: filter,
            decay_period: filter + pick(w, &[1u16, 10, 120, 600, 5000]),
            reduction_factor: pick(w, &[0u16, 500, 5000, 9999]),
            adaptive_fee_control_factor: pick(w, &[0u32, 100, 4000, 50000]),
            max_volatility_accumulator: pick(w, &[0u32, 10_000, 20_000, 35_000, 350_000]),
            tick_group_size: if w.rng.gen_bool(0.7) { sc.af_group } else { pick(w, &divisors) },
            major_swap_threshold_ticks: pick(w, &[1u16, 8, 64]).min(spacing.saturating_mul(88)),
        };
        let which = if w.rng.gen_bool(0.5) { 16u8 } else { w.rng.gen_range(1..128) as u8 };
        let ix = w.ix_set_adaptive_fee_constants(&pool, &c, which);
        rec.exec(w, &ix, false, json!(null));
        return;
    }
    if w.rng.gen_bool(0.03) {
        // administration and life-cycle operations in the middle of a history: the fee authority changes the pool's fee /
        // protocol fee rate between swaps; a position is locked (it can still be increased, its fees collected), or an
        // empty one re-ranged
        match w.rng.gen_range(0..4) {
            0 => {
                let rate = pick(w, &[0u16, 1, 100, 3000, 10000, 30000, 60000, 60001]);
                let ix = w.ix_set_fee_rate(&pool, rate);
                rec.exec(w, &ix, false, json!(null));
            }
            1 => {
                let rate = pick(w, &[0u16, 1, 300, 1000, 2500, 2501]);
                let ix = w.ix_set_protocol_fee_rate(&pool, rate);
                rec.exec(w, &ix, false, json!(null));
            }
            2 if !pos.is_empty() => {
                let p = pick(w, &pos);
                if w.positions[&p].kind == PosKind::TokenExt {
                    let owner = w.positions[&p].owner.clone();
                    let ix = w.ix_lock_position(&p, &owner);
                    rec.exec(w, &ix, false, json!(null));
                }
            }
            _ if !pos.is_empty() && sc.bounds.len() >= 2 => {
                // prefer a position without liquidity; what it is still owed is collected first (a position can be re-ranged
                // only when empty)
                let empty: Vec<String> = pos.iter().filter(|n| w.pos_range(n).map(|x| x.0 == 0).unwrap_or(false)).cloned().collect();
                let p = if !empty.is_empty() && w.rng.gen_bool(0.85) { pick(w, &empty) } else { pick(w, &pos) };
                let owner = w.positions[&p].owner.clone();
                if w.rng.gen_bool(0.8) {
                    let ix = w.ix_collect_fees(&p, &owner, v2);
                    rec.exec(w, &ix, false, json!(null));
                }
                let (a, b) = (pick(w, &sc.bounds), pick(w, &sc.bounds));
                if a < b && w.positions[&p].bundle.is_none() {
                    for t in [a, b] {
                        let start = w.ta_start(&pool, t);
                        if !w.ta_exists(&pool, start) {
                            let dynamic = w.pools[&pool].dynamic;
                            let ix = w.ix_init_tick_array(&pool, start, dynamic);
                            rec.exec(w, &ix, true, json!("setup"));
                        }
                    }
                    let ix = w.ix_reset_range(&p, &owner, a, b);
                    rec.exec(w, &ix, false, json!(null));
                }
            }
            _ => {}
        }
        return;
    }
    let r = w.rng.gen_range(0..100);
    if !pos.is_empty() && !sc.full_range_only && w.rng.gen_bool(0.04) {
        mirror_position(w, sc, rec, &pos, v2);
        return;
    }
    if pos.is_empty() || (r < 8 && pos.len() < 7) {
        open_random_position(w, sc, rec);
        return;
    }
    let p = pick(w, &pos);
    let owner = w.positions[&p].owner.clone();
    match r {
        0..=24 => {
            // increase
            let liq = if w.rng.gen_bool(0.3) { pick(w, &[1000u128, 1_000_000, 1_000_000_000, 1u128 << 40]) } else { log_uniform(w, sc.liq_bits.0, sc.liq_bits.1) };
            let mut ix = w.ix_increase(&p, &owner, liq, u64::MAX, u64::MAX, v2);
            if w.rng.gen_bool(0.4) {
                // caller maxima right at / one off what the deposit really costs
                if let Some((da, db, _)) = dry_run(w, sc, &owner, &ix) {
                    let (ma, mb) = (near(w, (-da).max(0) as u64, u64::MAX), near(w, (-db).max(0) as u64, u64::MAX));
                    ix = w.ix_increase(&p, &owner, liq, ma, mb, v2);
                }
            }
            rec.exec(w, &ix, false, json!(null));
        }
        25..=36 => {
            let (l, _, _) = w.pos_range(&p).unwrap();
            let liq = match w.rng.gen_range(0..4) {
                0 => l,
                1 => l / 2,
                2 => (w.rng.gen::<u128>() % (l + 1)).max(1),
                _ => l.min(1),
            };
            let mut ix = w.ix_decrease(&p, &owner, liq, 0, 0, v2);
            if w.rng.gen_bool(0.4) {
                // caller minima right at / one off what the withdrawal really returns
                if let Some((da, db, _)) = dry_run(w, sc, &owner, &ix) {
                    let (ma, mb) = (near(w, da.max(0) as u64, 0), near(w, db.max(0) as u64, 0));
                    ix = w.ix_decrease(&p, &owner, liq, ma, mb, v2);
                }
            }
            rec.exec(w, &ix, false, json!(null));
        }
        37..=41 => {
            // now and then the price is first put exactly on one of the position's bounds (from either side)
            if w.rng.gen_bool(0.3) {
                if let Some((_, lo, up)) = w.pos_range(&p) {
                    let target = price_of(if w.rng.gen_bool(0.5) { lo } else { up });
                    let cur = w.pool_sqrt_price(&pool);
                    if target != cur && target > MIN_SQRT_PRICE && target < MAX_SQRT_PRICE {
                        let ix = w.ix_swap(&pool, "U2", 1u64 << 60, 0, target, true, target < cur, v2);
                        rec.exec(w, &ix, false, json!("to_bound"));
                    }
                }
            }
            let a = log_uniform(w, 1, 50) as u64;
            let b = log_uniform(w, 1, 50) as u64;
            let sp = w.pool_sqrt_price(&pool);
            // price bounds: a window around the price, exactly the price, or just missing it on either side
            let (lo_sp, hi_sp) = match w.rng.gen_range(0..6) {
                0 => (sp, sp),
                1 => (sp + 1, (sp + sp / 100).min(MAX_SQRT_PRICE)),
                2 => (MIN_SQRT_PRICE.max(sp - sp / 100), sp - 1),
                3 => (MIN_SQRT_PRICE, sp),
                _ => (MIN_SQRT_PRICE.max(sp - sp / 100), (sp + sp / 100).min(MAX_SQRT_PRICE)),
            };
            let ix = w.ix_increase_by_amounts(&p, &owner, a, b, lo_sp, hi_sp);
            rec.exec(w, &ix, false, json!(null));
        }
        42..=45 => {
            if sc.bounds.len() >= 2 && !sc.full_range_only {
                let a = pick(w, &sc.bounds);
                let b = pick(w, &sc.bounds);
                if a < b {
                    for t in [a, b] {
                        let start = w.ta_start(&pool, t);
                        if !w.ta_exists(&pool, start) {
                            let dynamic = w.pools[&pool].dynamic;
                            let ix = w.ix_init_tick_array(&pool, start, dynamic);
                            rec.exec(w, &ix, true, json!("setup"));
                        }
                    }
                    let (l, _, _) = w.pos_range(&p).unwrap();
                    let nl = if w.rng.gen_bool(0.5) { l } else { log_uniform(w, sc.liq_bits.0, sc.liq_bits.1) };
                    let min_a = pick(w, &[0u64, 0, 0, 1, 1000]);
                    let min_b = pick(w, &[0u64, 0, 0, 1, 1000]);
                    let max_a = pick(w, &[u64::MAX, u64::MAX, u64::MAX, 1_000_000, 1_000_000_000_000]);
                    let max_b = pick(w, &[u64::MAX, u64::MAX, u64::MAX, 1_000_000, 1_000_000_000_000]);
                    let mut ix = w.ix_reposition(&p, &owner, a, b, nl, min_a, min_b, max_a, max_b);
                    if w.rng.gen_bool(0.6) {
                        // bounds right at / one off the realised amounts: minima against the old range's proceeds,
                        // maxima against the new range's cost plus the transfer fee the owner pays
                        let loose = w.ix_reposition(&p, &owner, a, b, nl, 0, 0, u64::MAX, u64::MAX);
                        if let Some((_, _, evs)) = dry_run(w, sc, &owner, &loose) {
                            if let Some(v) = evs.iter().find(|v| v["ev"] == "LiquidityRepositioned") {
                                let g = |k: &str| -> u64 { v[k].as_u64().or_else(|| v[k].as_str().and_then(|s| s.parse().ok())).unwrap_or(0) };
                                let need_a = g("newA").saturating_add(if v["fromOwnerA"] == true { g("feeA") } else { 0 });
                                let need_b = g("newB").saturating_add(if v["fromOwnerB"] == true { g("feeB") } else { 0 });
                                let (xa, xb) = (near(w, need_a, u64::MAX), near(w, need_b, u64::MAX));
                                let (na, nb) = (near(w, g("oldA"), 0), near(w, g("oldB"), 0));
                                ix = w.ix_reposition(&p, &owner, a, b, nl, na, nb, xa, xb);
                            }
                        }
                    }
                    rec.exec(w, &ix, false, json!(null));
                }
            }
        }
        46..=79 => {
            let trader = pick(w, &sc.users);
            let a_to_b = w.rng.gen_bool(0.5);
            let exact_in = w.rng.gen_bool(0.6);
            let amount = (log_uniform(w, 0, (sc.liq_bits.1 + 4).min(62)) as u64).max(1);
            let limit = random_limit(w, sc, &pool, a_to_b);
            let mut threshold = if exact_in { 0 } else { u64::MAX };
            let mut ix = w.ix_swap(&pool, &trader, amount, threshold, limit, exact_in, a_to_b, v2);
            if w.rng.gen_bool(0.35) {
                // slippage threshold right at / one off what the swap really delivers (exact-in: minimum output)
                // or takes (exact-out: maximum input)
                if let Some((da, db, _)) = dry_run(w, sc, &trader, &ix) {
                    let (d_in, d_out) = if a_to_b { (-da, db) } else { (-db, da) };
                    threshold = if exact_in { near(w, d_out.max(0) as u64, 0) } else { near(w, d_in.max(0) as u64, u64::MAX) };
                    ix = w.ix_swap(&pool, &trader, amount, threshold, limit, exact_in, a_to_b, v2);
                }
            }
            rec.exec(w, &ix, false, json!(null));
        }
        80..=84 => {
            if sc.af_periods.is_some() && r >= 82 {
                let (f, d) = sc.af_periods.unwrap();
                let (f, d) = (f as i64, d as i64);
                let dt = pick(w, &[f - 1, f, f + 1, (f + d) / 2, d - 1, d, d + 1, 3601]).max(0);
                rec.tick_clock(w, dt);
                return;
            }
            let ix = w.ix_update_fees(&p);
            rec.exec(w, &ix, false, json!(null));
        }
        85..=90 => {
            let ix = w.ix_collect_fees(&p, &owner, v2);
            rec.exec(w, &ix, false, json!(null));
        }
        91..=93 => {
            let ix = w.ix_collect_protocol_fees(&pool, "collectAuthC1", v2);
            rec.exec(w, &ix, false, json!(null));
        }
        94..=96 => {
            let dt = match sc.af_periods {
                // around the filter / decay periods and the one-hour reset of the volatility reference
                Some((f, d)) if w.rng.gen_bool(0.7) => {
                    let (f, d) = (f as i64, d as i64);
                    pick(w, &[f - 1, f, f + 1, (f + d) / 2, d - 1, d, d + 1, 3600, 3601]).max(0)
                }
                _ => pick(w, &[0i64, 1, 1, 4, 10, 29, 61, 100, 601, 3601, 86400, 100_000_000]),
            };
            rec.tick_clock(w, dt);
        }
        _ => {
            // closing: as is, or after withdrawing everything and collecting only the fees / only the rewards / both
            // (a position is closed only when nothing at all is left in it)
            let variant = w.rng.gen_range(0..4);
            if variant > 0 {
                if let Some((l, _, _)) = w.pos_range(&p) {
                    if l > 0 {
                        let ix = w.ix_decrease(&p, &owner, l, 0, 0, v2);
                        rec.exec(w, &ix, false, json!(null));
                    }
                }
                if variant != 2 {
                    let ix = w.ix_collect_fees(&p, &owner, v2);
                    rec.exec(w, &ix, false, json!(null));
                }
                if variant != 1 {
                    for i in 0..w.pools[&pool].rewards.len() as u8 {
                        let ix = w.ix_collect_reward(&p, &owner, i, v2);
                        rec.exec(w, &ix, false, json!(null));
                    }
                }
            }
            let ix = w.ix_close_position(&p, &owner);
            rec.exec(w, &ix, false, json!(null));
        }
    }
}

/// Reward-related operations (C11): initialise rewards, fund vaults, change emissions, collect,
/// advance (occasionally: rewind) the clock.
fn reward_step(w: &mut World, sc: &Scenario, rec: &mut Recorder, pos: &[String], v2: bool) {
    let pool = sc.pool.clone();
    let nrew = w.pools[&pool].rewards.len();
    match w.rng.gen_range(0..100) {
        0..=14 => {
            // next reward index (sometimes a wrong one)
            let idx = if w.rng.gen_bool(0.85) { nrew as u8 } else { w.rng.gen_range(0..4) };
            let before = w.pools[&pool].rewards.len();
            let ix = w.ix_init_reward(&pool, idx, "R", v2);
            let ex = rec.exec(w, &ix, false, json!(null));
            if !ex.ok() && w.pools[&pool].rewards.len() > before {
                w.pools.get_mut(&pool).unwrap().rewards.pop();
            }
        }
        15..=29 if nrew > 0 => {
            // fund a reward vault (plain token-program instruction, recorded like any other)
            let i = w.rng.gen_range(0..nrew);
            let vault = w.pools[&pool].rewards[i].1;
            let m = w.mints["R"].clone();
            let amt = log_uniform(w, 30, 58) as u64;
            let inst = match m.prog {
                TokProg::Spl => spl_token::instruction::mint_to(&spl_token::ID, &m.key, &vault, &m.auth, &[], amt).unwrap(),
                TokProg::T22 => spl_token_2022::instruction::mint_to(&spl_token_2022::ID, &m.key, &vault, &m.auth, &[], amt).unwrap(),
            };
            let ix = crate::world::Ix { name: "token_mint_to".into(), accts: "", metas: inst.accounts.clone(), extra: vec!["mint".into(), "account".into(), "authority".into()], data: inst.data.clone(), args: json!({"amount": nu(amt as u128)}), program: inst.program_id };
            rec.exec(w, &ix, true, json!("setup"));
        }
        30..=49 if nrew > 0 => {
            let i = w.rng.gen_range(0..nrew) as u8;
            // a rate whose day of emissions is exactly what the vault holds, or one token more: the smallest rate r with
            // floor(86400 r / 2^64) = target (fractional in Q64.64 - the whole-token part alone would under-state the day)
            let vault_now = w.token_amount(&w.pools[&pool].rewards[i as usize].1);
            let tight = |target: u64| -> u128 {
                let num = ethnum::U256::from(target) << 64u32;
                let mut r = (num / ethnum::U256::from(86400u32)).as_u128();
                while ((ethnum::U256::from(r) * ethnum::U256::from(86400u32)) >> 64u32).as_u128() < target as u128 {
                    r += 1;
                }
                r
            };
            let em = match w.rng.gen_range(0..8) {
                6 if vault_now > 0 && vault_now < u64::MAX / 2 => tight(vault_now),
                7 if vault_now < u64::MAX / 2 => tight(vault_now + 1),
                0 => 0,
                1 => 1u128 << 64,
                2 => log_uniform(w, 100, 126),
                3 => log_uniform(w, 30, 64),
                _ => log_uniform(w, 64, 92),
            };
            let ix = w.ix_set_reward_emissions(&pool, i, em, v2);
            rec.exec(w, &ix, false, json!(null));
        }
        50..=69 if nrew > 0 && !pos.is_empty() => {
            // prefer a position that is in range (it accrues rewards)
            let in_range: Vec<String> = pos
                .iter()
                .filter(|n| {
                    let t = w.pool_tick(&pool);
                    w.pos_range(n).map(|(l, lo, up)| l > 0 && lo <= t && t < up).unwrap_or(false)
                })
                .cloned()
                .collect();
            // ... or, now and then, one with liquidity that the price has left, after some time without any pool activity (its
            // rewards must stand still while the pool's accumulators run on)
            let out_of_range: Vec<String> = pos
                .iter()
                .filter(|n| {
                    let t = w.pool_tick(&pool);
                    w.pos_range(n).map(|(l, lo, up)| l > 0 && !(lo <= t && t < up)).unwrap_or(false)
                })
                .cloned()
                .collect();
            let p = if !out_of_range.is_empty() && w.rng.gen_bool(0.25) {
                let dt = pick(w, &[1i64, 60, 3600, 86400]);
                rec.tick_clock(w, dt);
                pick(w, &out_of_range)
            } else if !in_range.is_empty() && w.rng.gen_bool(0.8) {
                pick(w, &in_range)
            } else {
                pick(w, pos)
            };
            let owner = w.positions[&p].owner.clone();
            let i = if w.rng.gen_bool(0.9) { w.rng.gen_range(0..nrew) as u8 } else { w.rng.gen_range(0..3) };
            if w.rng.gen_bool(0.7) {
                let ix = w.ix_update_fees(&p);
                rec.exec(w, &ix, false, json!(null));
            }
            let ix = w.ix_collect_reward(&p, &owner, i, v2);
            rec.exec(w, &ix, false, json!(null));
        }
        75..=80 if nrew > 0 && !pos.is_empty() => {
            // a position that earned rewards is emptied and its fees collected, then closed while its rewards are still owed
            // (refused), then after collecting them (accepted): plain, token-extension and bundled positions alike
            let t = w.pool_tick(&pool);
            let in_range: Vec<String> = pos.iter().filter(|n| w.pos_range(n).map(|(l, lo, up)| l > 0 && lo <= t && t < up).unwrap_or(false)).cloned().collect();
            if in_range.is_empty() {
                return;
            }
            let p = pick(w, &in_range);
            let owner = w.positions[&p].owner.clone();
            let dt = pick(w, &[60i64, 3600, 86400]);
            rec.tick_clock(w, dt);
            let (l, _, _) = w.pos_range(&p).unwrap();
            let ix = w.ix_decrease(&p, &owner, l, 0, 0, v2);
            rec.exec(w, &ix, false, json!(null));
            let ix = w.ix_collect_fees(&p, &owner, v2);
            rec.exec(w, &ix, false, json!(null));
            let ix = w.ix_close_position(&p, &owner);
            rec.exec(w, &ix, false, json!("close_with_rewards_owed"));
            for i in 0..nrew as u8 {
                let ix = w.ix_collect_reward(&p, &owner, i, v2);
                rec.exec(w, &ix, false, json!(null));
            }
            let ix = w.ix_close_position(&p, &owner);
            rec.exec(w, &ix, false, json!(null));
        }
        70..=74 => {
            // a timestamp earlier than the last update: every instruction carrying one must fail
            let dt = pick(w, &[-1i64, -10, -100000]);
            rec.tick_clock(w, dt);
            if !pos.is_empty() {
                let p = pick(w, pos);
                let ix = w.ix_update_fees(&p);
                rec.exec(w, &ix, false, json!("rewind"));
            }
            rec.tick_clock(w, -dt);
        }
        _ => {
            let dt = pick(w, &[0i64, 1, 1, 7, 60, 3600, 86400, 31_536_000, 3_000_000_000]);
            rec.tick_clock(w, dt);
        }
    }
}

/// On a copy of the world, withdraw everything in random order; every call must succeed.
pub fn drain(w: &World, rec: &mut Recorder) {
    let mut c = w.clone();
    rec.reset(&mut c, json!({"drain": true}));
    let mut order = open_positions(&c);
    for i in (1..order.len()).rev() {
        let j = c.rng.gen_range(0..=i);
        order.swap(i, j);
    }
    let proto_at = if order.is_empty() { 0 } else { c.rng.gen_range(0..=order.len()) };
    let v2all = c.pools.values().any(|p| c.mints[&p.mint_a].prog == TokProg::T22);
    for (i, p) in order.iter().enumerate() {
        if i == proto_at {
            let ix = c.ix_collect_protocol_fees("P1", "collectAuthC1", v2all);
            rec.exec(&mut c, &ix, true, json!("drain"));
        }
        let owner = c.positions[p].owner.clone();
        let (l, _, _) = c.pos_range(p).unwrap();
        // (a locked position cannot be withdrawn - by design, C18; its fees can still be collected)
        let locked = c.bank.accts.contains_key(&c.lock_config_key(p));
        if l > 0 && !locked {
            let v = v2all || c.rng.gen_bool(0.5);
            let ix = c.ix_decrease(p, &owner, l, 0, 0, v);
            rec.exec(&mut c, &ix, true, json!("drain"));
        } else {
            // settle fees of an empty position is impossible (LiquidityZero), collect what is owed
        }
        let v = v2all || c.rng.gen_bool(0.5);
        let ix = c.ix_collect_fees(p, &owner, v);
        rec.exec(&mut c, &ix, true, json!("drain"));
    }
    if proto_at >= order.len() {
        let ix = c.ix_collect_protocol_fees("P1", "collectAuthC1", v2all);
        rec.exec(&mut c, &ix, true, json!("drain"));
    }
}

/// The corner where liquidity * sqrt_price reaches 2^192 (C20): near the maximum price a one-spacing-wide
/// position just above the current tick holds a huge liquidity for a modest amount of token A; a small
/// B->A swap moves the price into it, then tiny exact-in A->B swaps need the next-price-from-A formula,
/// which the program refuses with MultiplicationOverflow.
fn whale_corner(w: &mut World, sc: &Scenario, rec: &mut Recorder) {
    let pool = sc.pool.clone();
    let s = w.pools[&pool].spacing as i32;
    let t = w.pool_tick(&pool);
    let lo = (t.div_euclid(s) + 1) * s;
    let up = lo + s;
    if up > (MAX_TICK / s) * s {
        return;
    }
    let (pl, pu) = (price_of(lo), price_of(up));
    // L * price >= 2^192 with room; token A needed ~ L * 2^64 * (pu - pl) / (pu * pl) must fit the balance
    let l = (2f64.powi(192) * 1.5 / (pl as f64)) as u128;
    if (l as f64) * 2f64.powi(64) * ((pu - pl) as f64) / ((pu as f64) * (pl as f64)) > 2f64.powi(59) {
        return;
    }
    for tt in [lo, up] {
        let start = w.ta_start(&pool, tt);
        if !w.ta_exists(&pool, start) {
            let dynamic = w.pools[&pool].dynamic;
            let ix = w.ix_init_tick_array(&pool, start, dynamic);
            rec.exec(w, &ix, true, json!("setup"));
        }
    }
    let (ix, info) = w.ix_open_position(&pool, "U1", lo, up, PosKind::Plain);
    if !rec.exec(w, &ix, true, json!("corner")).ok() {
        return;
    }
    let name = info.name.clone();
    w.positions.insert(info.name.clone(), info);
    let v2 = sc.v2_only;
    let ix = w.ix_increase(&name, "U1", l, u64::MAX, u64::MAX, v2);
    rec.exec(w, &ix, false, json!("corner"));
    // enough B that getting back to the lower tick takes more than three units of A
    let amt = ((pl as f64) * (pl as f64) / 2f64.powi(128) * w.rng.gen_range(4.0..6.0)) as u64;
    let ix = w.ix_swap(&pool, "U2", amt, 0, MAX_SQRT_PRICE, true, false, v2);
    rec.exec(w, &ix, false, json!("corner"));
    for (a, exact_in) in [(1u64, true), (2, true), (3, true), (1, false), (1u64 << 20, true)] {
        let thr = if exact_in { 0 } else { u64::MAX };
        let ix = w.ix_swap(&pool, "U3", a, thr, MIN_SQRT_PRICE, exact_in, true, v2);
        rec.exec(w, &ix, false, json!("corner"));
    }
}

/// Solvency under pay-out-only re-ranging (C01): several positions over the same range with the same liquidity, the price moved
/// by an exact-out swap, then all but one of them repositioned to a far range above the price with next to no liquidity - each
/// reposition only pays token B out.  What the old range frees must be rounded DOWN every time: one unit too much per reposition
/// and the vault can no longer cover the position that stays.
fn reposition_payouts(w: &mut World, sc: &Scenario, rec: &mut Recorder) {
    let pool = sc.pool.clone();
    let s = w.pools[&pool].spacing as i32;
    if s >= 32768 {
        return;
    }
    let t = w.pool_tick(&pool);
    let lo = (t.div_euclid(s) - 10) * s;
    let up = (t.div_euclid(s) + 10) * s;
    let (lo2, up2) = (up + 20 * s, up + 30 * s);
    if lo <= MIN_TICK + s || up2 >= MAX_TICK - s {
        return;
    }
    for tt in [lo, up, lo2, up2] {
        let start = w.ta_start(&pool, tt);
        if !w.ta_exists(&pool, start) {
            let dynamic = w.pools[&pool].dynamic;
            let ix = w.ix_init_tick_array(&pool, start, dynamic);
            rec.exec(w, &ix, true, json!("setup"));
        }
    }
    let v2 = sc.v2_only;
    let n = w.rng.gen_range(6..10);
    // the fractional part of what one position holds in token B, L x (price - lower price) / 2^64, in units of 2^-64
    let frac = |l: u128, p: u128| -> u128 {
        let x = ethnum::U256::from(l) * ethnum::U256::from(p - price_of(lo));
        (x & ethnum::U256::from(u64::MAX)).as_u128()
    };
    // a liquidity amount whose deposit is rounded up by next to nothing (so that the deposits leave no surplus in the vault) ...
    let p0 = w.pool_sqrt_price(&pool);
    let mut l = 100_000_000_000u128 + (w.rng.gen::<u64>() % 100_000_000_000) as u128;
    for _ in 0..400 {
        if frac(l, p0) > (u64::MAX as u128 / 100) * 95 {
            break;
        }
        l += 1 + (w.rng.gen::<u64>() % 1000) as u128;
    }
    let mut names = vec![];
    for _ in 0..n {
        let (ix, info) = w.ix_open_position(&pool, "U1", lo, up, PosKind::Plain);
        if !rec.exec(w, &ix, true, json!("payouts")).ok() {
            return;
        }
        let name = info.name.clone();
        w.positions.insert(name.clone(), info);
        let ix = w.ix_increase(&name, "U1", l, u64::MAX, u64::MAX, v2);
        rec.exec(w, &ix, false, json!("payouts"));
        names.push(name);
    }
    // ... and a swap after which a position's holding of B has a small fractional part (so that rounding it up instead of down
    // gives away nearly a whole unit each time)
    let mut out = 1_000_001 + (w.rng.gen::<u64>() % 1_000_000);
    for _ in 0..60 {
        let mut c = w.clone();
        let ix = c.ix_swap(&pool, "U2", out, u64::MAX, 0, false, true, v2);
        if c.exec_raw(&ix.instruction()).ok() && frac(l, c.pool_sqrt_price(&pool)) < (u64::MAX as u128 / 100) * 10 && c.pool_sqrt_price(&pool) > price_of(lo) {
            break;
        }
        out += 1 + (w.rng.gen::<u64>() % 5000);
    }
    let ix = w.ix_swap(&pool, "U2", out, u64::MAX, 0, false, true, v2);
    rec.exec(w, &ix, false, json!("payouts"));
    for name in names.iter().skip(1) {
        let ix = w.ix_reposition(name, "U1", lo2, up2, 1000, 0, 0, u64::MAX, u64::MAX);
        rec.exec(w, &ix, false, json!("payouts"));
    }
}

/// Long swaps (C20, C10): liquidity over six consecutive tick arrays, then swaps that end in the THIRD array of their window, in both
/// directions, while three more arrays exist behind the start (the SDK is then quoted over all six).
fn long_swaps(w: &mut World, sc: &Scenario, rec: &mut Recorder) {
    let pool = sc.pool.clone();
    let s = w.pools[&pool].spacing as i32;
    let span = s * 88;
    let t = w.pool_tick(&pool);
    let s0 = t.div_euclid(span) * span;
    if sc.full_range_only || s0 - 3 * span <= MIN_TICK || s0 + 4 * span >= MAX_TICK {
        return;
    }
    for k in -3..=3 {
        let st = s0 + k * span;
        if !w.ta_exists(&pool, st) {
            let dynamic = w.pools[&pool].dynamic;
            let ix = w.ix_init_tick_array(&pool, st, dynamic);
            rec.exec(w, &ix, true, json!("setup"));
        }
    }
    let (lo, up) = (s0 - 3 * span + s, s0 + 4 * span - s);
    let (ix, info) = w.ix_open_position(&pool, "U1", lo, up, PosKind::Plain);
    if !rec.exec(w, &ix, true, json!("long")).ok() {
        return;
    }
    let name = info.name.clone();
    w.positions.insert(name.clone(), info);
    let v2 = sc.v2_only;
    let liq = 1u128 << w.rng.gen_range(24..34);
    let ix = w.ix_increase(&name, "U1", liq, u64::MAX, u64::MAX, v2);
    rec.exec(w, &ix, false, json!("long"));
    let big = 1u64 << 58;
    for round in 0..3 {
        let cur = w.pool_tick(&pool).div_euclid(span) * span;
        // b -> a into the third array of the window (two arrays above the current one), a -> b two arrays below
        let up_t = cur + 2 * span + w.rng.gen_range(1..80) * s + 1;
        if up_t < up - s {
            let ix = w.ix_swap(&pool, "U2", big, 0, price_of(up_t), true, false, v2);
            rec.exec(w, &ix, false, json!("long"));
        }
        let cur = w.pool_tick(&pool).div_euclid(span) * span;
        let dn_t = cur - 2 * span + w.rng.gen_range(1..80) * s + 1;
        if dn_t > lo + s && round < 2 {
            let ix = w.ix_swap(&pool, "U3", big, 0, price_of(dn_t), true, true, v2);
            rec.exec(w, &ix, false, json!("long"));
        }
    }
}

/// Adaptive fee (C14): a deterministic walk through the reference rules.  Liquidity over a wide range; a
/// swap that moves several tick groups (accumulator > 0); a pause inside [filter, decay) and a small swap
/// (the reference becomes the reduced accumulator); a pause beyond the decay period (or inside the window
/// again) and a swap that moves many groups in either direction - each group must be charged its own rate
/// computed from the DECAYED reference.
fn af_decay_scenario(w: &mut World, sc: &Scenario, rec: &mut Recorder) {
    let Some((f, d)) = sc.af_periods else { return };
    let pool = sc.pool.clone();
    let s = w.pools[&pool].spacing as i32;
    let gs = sc.af_group as i32;
    let t = w.pool_tick(&pool);
    if gs == 0 || t.abs() > 300_000 || sc.full_range_only {
        return;
    }
    let span = s * 88;
    let base = t.div_euclid(s) * s;
    let (lo, up) = (base - 80 * s, base + 80 * s);
    let mut starts = vec![];
    for tt in [lo, up, t, t - span, t + span, t - 2 * span, t + 2 * span] {
        starts.push(tt.div_euclid(span) * span);
    }
    starts.sort();
    starts.dedup();
    for st in starts {
        if !w.ta_exists(&pool, st) {
            let dynamic = w.pools[&pool].dynamic;
            let ix = w.ix_init_tick_array(&pool, st, dynamic);
            rec.exec(w, &ix, true, json!("setup"));
        }
    }
    let (ix, info) = w.ix_open_position(&pool, "U1", lo, up, PosKind::Plain);
    if !rec.exec(w, &ix, true, json!("af")).ok() {
        return;
    }
    let name = info.name.clone();
    w.positions.insert(name.clone(), info);
    let v2 = sc.v2_only;
    let liq = 1u128 << w.rng.gen_range(30..44);
    let ix = w.ix_increase(&name, "U1", liq, u64::MAX, u64::MAX, v2);
    rec.exec(w, &ix, false, json!("af"));
    let big = 1u64 << 58;
    let boundary = |g: i32| price_of((g * gs).clamp(lo + s, up - s));
    // 1. move several groups up
    let g0 = t.div_euclid(gs);
    let k1 = w.rng.gen_range(2..7);
    let ix = w.ix_swap(&pool, "U2", big, 0, boundary(g0 + 1 + k1), true, false, v2);
    rec.exec(w, &ix, false, json!("af"));
    // 2. inside the filter..decay window: the reference becomes the reduced accumulator
    let dt = pick(w, &[f as i64, (f as i64 + d as i64) / 2, d as i64 - 1]).max(0);
    rec.tick_clock(w, dt);
    let a_to_b = w.rng.gen_bool(0.5);
    let small = w.rng.gen_range(1..100_000);
    let ix = w.ix_swap(&pool, "U3", small, 0, if a_to_b { MIN_SQRT_PRICE } else { MAX_SQRT_PRICE }, true, a_to_b, v2);
    rec.exec(w, &ix, false, json!("af"));
    // 3. beyond the decay period (reference reset), at it, or inside the window again; then a long move
    let dt = pick(w, &[d as i64 + 1, d as i64, d as i64 - 1, f as i64, 3601]).max(0);
    rec.tick_clock(w, dt);
    let g1 = w.pool_tick(&pool).div_euclid(gs);
    let m = w.rng.gen_range(3..40);
    let a_to_b = w.rng.gen_bool(0.5);
    let limit = if a_to_b { boundary(g1 - m) } else { boundary(g1 + 1 + m) };
    let ix = w.ix_swap(&pool, "U2", big, 0, limit, true, a_to_b, v2);
    rec.exec(w, &ix, false, json!("af"));
    // 4. and back, right away (inside the filter period: reference unchanged)
    let limit = if a_to_b { boundary(g1 + 2) } else { boundary(g1 - 1) };
    let ix = w.ix_swap(&pool, "U3", big, 0, limit, true, !a_to_b, v2);
    rec.exec(w, &ix, false, json!("af"));
    // 5. swaps that move the price by exactly the major-swap threshold (the program's own target price: smaller price x
    //    price_of(threshold ticks) >> 64), by one unit less and by one unit more, in either direction
    let Some(info) = crate::sdk::oracle_info(&w.bank, &w.pools[&pool].oracle) else { return };
    let factor = ethnum::U256::from(price_of(info.constants.major_swap_threshold_ticks as i32));
    let target_of = |smaller: u128| -> u128 { ((ethnum::U256::from(smaller) * factor) >> 64u32).as_u128() };
    for k in 0..6 {
        let dtk = pick(w, &[1i64, f as i64, d as i64 + 1]);
        rec.tick_clock(w, dtk);
        let p = w.pool_sqrt_price(&pool);
        let off = [0i128, -1, 1][k % 3];
        let limit = if k < 3 {
            // b -> a: the price rises from p to exactly / just below / just above the target
            (target_of(p) as i128 + off) as u128
        } else {
            // a -> b: the price falls to the smallest price whose target is (at most) p, one unit either side
            let mut q = ((ethnum::U256::from(p) << 64u32) / factor).as_u128();
            while target_of(q) > p {
                q -= 1;
            }
            while target_of(q + 1) <= p {
                q += 1;
            }
            (q as i128 + off) as u128
        };
        if limit <= MIN_SQRT_PRICE || limit >= MAX_SQRT_PRICE || limit <= price_of(lo + s) || limit >= price_of(up - s) {
            continue;
        }
        let ix = w.ix_swap(&pool, "U2", big, 0, limit, true, k >= 3, v2);
        rec.exec(w, &ix, false, json!("af"));
    }
}

pub fn run(cfg: &HistCfg, rec: &mut Recorder) {
    rec.crosscheck_every = cfg.crosscheck_every;
    rec.dual = cfg.dual;
    rec.sdk = cfg.sdk;
    for h in 0..cfg.histories {
        let seed = cfg.seed.wrapping_mul(1_000_003).wrapping_add(h as u64);
        FORCE_HIGH.with(|c| c.set(cfg.sdk && h % 4 == 1));
        AF_BIAS.with(|c| c.set(cfg.adaptive && h % 2 == 0));
        let (mut w, sc) = build_world(seed, &cfg.tokens, cfg.rewards, cfg.adaptive, rec);
        if FORCE_HIGH.with(|c| c.replace(false)) {
            whale_corner(&mut w, &sc, rec);
        }
        if cfg.adaptive && h % 2 == 0 {
            af_decay_scenario(&mut w, &sc, rec);
        }
        if h % 4 == 2 {
            reposition_payouts(&mut w, &sc, rec);
        }
        if h % 4 == 3 {
            long_swaps(&mut w, &sc, rec);
        }
        for s in 0..cfg.steps {
            random_step(&mut w, &sc, rec);
            if cfg.drain && (s + 1) % 50 == 0 {
                drain(&w, rec);
                // continue the history: re-sync the spec state to the live world
                let mut ww = w.clone();
                rec.reset(&mut ww, json!({"resume": true}));
                w.last_proj = ww.last_proj.clone();
            }
        }
        if cfg.drain {
            drain(&w, rec);
        }
    }
    rec.flush();
}
