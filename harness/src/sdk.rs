//! C20: the Rust core SDK (`orca_whirlpools_core`, compiled unmodified against the local `ethnum`
//! stand-in) quoted on facades built from the same account bytes the program executes on.
use crate::project::{self, decode_dynamic_ticks, decode_fixed_ticks, nu, TickRec};
use crate::svm::Bank;
use anchor_lang::Discriminator;
use orca_whirlpools_core as core_sdk;
use serde_json::{json, Value};
use solana_program::pubkey::Pubkey;

fn facade_of(ticks: &[TickRec], start: i32) -> core_sdk::TickArrayFacade {
    let mut f = core_sdk::TickArrayFacade { start_tick_index: start, ticks: [core_sdk::TickFacade::default(); 88] };
    for (i, t) in ticks.iter().enumerate().take(88) {
        f.ticks[i] = core_sdk::TickFacade { initialized: t.init, liquidity_net: t.net, liquidity_gross: t.gross, fee_growth_outside_a: t.fo_a, fee_growth_outside_b: t.fo_b, reward_growths_outside: t.ro };
    }
    f
}

pub fn tick_array_facade(bank: &Bank, key: &Pubkey, expected_start: i32) -> Option<core_sdk::TickArrayFacade> {
    match bank.accts.get(key) {
        Some(a) if a.owner == whirlpool::ID && a.data.len() >= 8 => {
            if &a.data[..8] == whirlpool::state::FixedTickArray::DISCRIMINATOR {
                let (start, _, ticks) = decode_fixed_ticks(&a.data);
                Some(facade_of(&ticks, start))
            } else if &a.data[..8] == whirlpool::state::DynamicTickArray::DISCRIMINATOR {
                let (start, _, _, ticks, _, _) = decode_dynamic_ticks(&a.data);
                Some(facade_of(&ticks, start))
            } else {
                None
            }
        }
        // named but not initialized: behaves as an array without initialized ticks
        _ => Some(facade_of(&[], expected_start)),
    }
}

pub fn whirlpool_facade(bank: &Bank, key: &Pubkey) -> core_sdk::WhirlpoolFacade {
    let a = &bank.accts[key];
    let mut r = project::Rd::new(&a.data, 8 + 32 + 1);
    let tick_spacing = r.u16();
    let seed: [u8; 2] = r.take(2).try_into().unwrap();
    let fee_rate = r.u16();
    let protocol_fee_rate = r.u16();
    let liquidity = r.u128();
    let sqrt_price = r.u128();
    let tick_current_index = r.i32();
    r.take(16 + 64);
    let fga = r.u128();
    r.take(64);
    let fgb = r.u128();
    let ts = r.u64();
    let mut ri = [core_sdk::WhirlpoolRewardInfoFacade::default(); 3];
    for x in ri.iter_mut() {
        r.take(96);
        x.emissions_per_second_x64 = r.u128();
        x.growth_global_x64 = r.u128();
    }
    core_sdk::WhirlpoolFacade { fee_tier_index_seed: seed, tick_spacing, fee_rate, protocol_fee_rate, liquidity, sqrt_price, tick_current_index, fee_growth_global_a: fga, fee_growth_global_b: fgb, reward_last_updated_timestamp: ts, reward_infos: ri }
}

pub fn oracle_info(bank: &Bank, key: &Pubkey) -> Option<core_sdk::AdaptiveFeeInfo> {
    let a = bank.accts.get(key)?;
    if a.owner != whirlpool::ID || a.data.len() < 8 + 32 + 8 + 34 + 44 {
        return None;
    }
    let mut r = project::Rd::new(&a.data, 8 + 32 + 8);
    let constants = core_sdk::AdaptiveFeeConstantsFacade { filter_period: r.u16(), decay_period: r.u16(), reduction_factor: r.u16(), adaptive_fee_control_factor: r.u32(), max_volatility_accumulator: r.u32(), tick_group_size: r.u16(), major_swap_threshold_ticks: r.u16() };
    r.take(16);
    let variables = core_sdk::AdaptiveFeeVariablesFacade { last_reference_update_timestamp: r.u64(), last_major_swap_timestamp: r.u64(), volatility_reference: r.u32(), tick_group_index_reference: r.i32(), volatility_accumulator: r.u32() };
    Some(core_sdk::AdaptiveFeeInfo { constants, variables })
}

/// Quote the inner swap computation with the SDK on the pre-state bank.
#[allow(clippy::too_many_arguments)]
pub fn quote(bank: &Bank, pool: &Pubkey, oracle: &Pubkey, supplied: &[Pubkey], amount: u64, limit: u128, exact_in: bool, a_to_b: bool, ts: u64) -> Value {
    let wp = whirlpool_facade(bank, pool);
    let span = wp.tick_spacing as i32 * 88;
    // the arrays the program would use: from the current tick (shifted by one spacing for b->a), three in trade direction
    let shifted = if a_to_b { wp.tick_current_index } else { wp.tick_current_index + wp.tick_spacing as i32 };
    let s0 = shifted.div_euclid(span) * span;
    let dir = if a_to_b { -1 } else { 1 };
    let mut arrays: [Option<core_sdk::TickArrayFacade>; 6] = [None; 6];
    let mut n = 0;
    for k in 0..3 {
        let start = s0 + dir * k * span;
        let pda = Pubkey::find_program_address(&[b"tick_array", pool.as_ref(), start.to_string().as_bytes()], &whirlpool::ID).0;
        if !supplied.contains(&pda) {
            break; // the window is cut at the first array that was not supplied
        }
        arrays[n] = tick_array_facade(bank, &pda, start);
        n += 1;
    }
    // ... and, while they exist on chain, up to three more arrays BEHIND the start (callers of the SDK fetch arrays on both sides of
    // the price): they cannot change the quote of this swap, but the sequence then has up to six slots in use
    let in_window = n;
    for k in 1..=3 {
        if n >= 6 {
            break;
        }
        let start = s0 - dir * k * span;
        let pda = Pubkey::find_program_address(&[b"tick_array", pool.as_ref(), start.to_string().as_bytes()], &whirlpool::ID).0;
        match bank.accts.get(&pda) {
            Some(a) if a.owner == whirlpool::ID && a.data.len() >= 8 => {
                arrays[n] = tick_array_facade(bank, &pda, start);
                n += 1;
            }
            _ => break,
        }
    }
    let info = oracle_info(bank, oracle);
    let r = std::panic::catch_unwind(std::panic::AssertUnwindSafe(|| {
        let seq = core_sdk::TickArraySequence::new(arrays, wp.tick_spacing)?;
        core_sdk::compute_swap(amount, limit, wp, seq, a_to_b, exact_in, ts, info)
    }));
    match r {
        Ok(Ok(s)) => json!({"present": true, "ok": true, "a": nu(s.token_a as u128), "b": nu(s.token_b as u128), "fee": nu(s.trade_fee as u128), "err": "", "arrays": in_window, "slots": n}),
        Ok(Err(e)) => json!({"present": true, "ok": false, "a": 0, "b": 0, "fee": 0, "err": e, "arrays": in_window, "slots": n}),
        Err(_) => json!({"present": true, "ok": false, "a": 0, "b": 0, "fee": 0, "err": "panic", "arrays": in_window, "slots": n}),
    }
}

fn transfer_fee_of(bank: &Bank, mint: &Pubkey, epoch: u64) -> Option<core_sdk::TransferFee> {
    let a = bank.accts.get(mint)?;
    let (older, newer) = project::t22_transfer_fee_config(&a.data)?;
    let (_, max_fee, bps) = if epoch >= newer.0 { newer } else { older };
    Some(core_sdk::TransferFee { fee_bps: bps, max_fee })
}

/// The SDK's user-facing quotes (`swap_quote_by_input_token` / `swap_quote_by_output_token`: transfer fees of
/// both mints applied, no price limit, slippage-adjusted bound) on the pre-state bank.  Only meaningful for
/// swaps submitted without an explicit price limit.
#[allow(clippy::too_many_arguments)]
pub fn quote_user_level(bank: &Bank, pool: &Pubkey, oracle: &Pubkey, supplied: &[Pubkey], mint_a: &Pubkey, mint_b: &Pubkey, amount: u64, exact_in: bool, a_to_b: bool, ts: u64, epoch: u64, slippage_bps: u16) -> Value {
    let wp = whirlpool_facade(bank, pool);
    let span = wp.tick_spacing as i32 * 88;
    let shifted = if a_to_b { wp.tick_current_index } else { wp.tick_current_index + wp.tick_spacing as i32 };
    let s0 = shifted.div_euclid(span) * span;
    let dir = if a_to_b { -1 } else { 1 };
    let mut fs = vec![];
    for k in 0..3 {
        let start = s0 + dir * k * span;
        let pda = Pubkey::find_program_address(&[b"tick_array", pool.as_ref(), start.to_string().as_bytes()], &whirlpool::ID).0;
        if !supplied.contains(&pda) {
            break;
        }
        match tick_array_facade(bank, &pda, start) {
            Some(f) => fs.push(f),
            None => break,
        }
    }
    // (as in `quote`: up to three more existing arrays behind the start)
    if !fs.is_empty() {
        for k in 1..=3 {
            let start = s0 - dir * k * span;
            let pda = Pubkey::find_program_address(&[b"tick_array", pool.as_ref(), start.to_string().as_bytes()], &whirlpool::ID).0;
            match bank.accts.get(&pda) {
                Some(a) if a.owner == whirlpool::ID && a.data.len() >= 8 => match tick_array_facade(bank, &pda, start) {
                    Some(f) => fs.push(f),
                    None => break,
                },
                _ => break,
            }
        }
    }
    let tas = match fs.len() {
        1 => core_sdk::TickArrays::One(fs[0]),
        2 => core_sdk::TickArrays::Two(fs[0], fs[1]),
        3 => core_sdk::TickArrays::Three(fs[0], fs[1], fs[2]),
        4 => core_sdk::TickArrays::Four(fs[0], fs[1], fs[2], fs[3]),
        5 => core_sdk::TickArrays::Five(fs[0], fs[1], fs[2], fs[3], fs[4]),
        6 => core_sdk::TickArrays::Six(fs[0], fs[1], fs[2], fs[3], fs[4], fs[5]),
        _ => return json!({"present": false}),
    };
    let orc = oracle_info(bank, oracle).map(|i| {
        let a = &bank.accts[oracle];
        let te = u64::from_le_bytes(a.data[8 + 32..8 + 32 + 8].try_into().unwrap());
        core_sdk::OracleFacade { trade_enable_timestamp: te, adaptive_fee_constants: i.constants, adaptive_fee_variables: i.variables }
    });
    let (tfa, tfb) = (transfer_fee_of(bank, mint_a, epoch), transfer_fee_of(bank, mint_b, epoch));
    let r = std::panic::catch_unwind(std::panic::AssertUnwindSafe(|| {
        if exact_in {
            core_sdk::swap_quote_by_input_token(amount, a_to_b, slippage_bps, wp, orc, tas, ts, tfa, tfb).map(|q| (q.token_in, q.token_est_out, q.token_min_out, q.trade_fee))
        } else {
            // specified token = the OUTPUT token: A when the swap is b -> a
            core_sdk::swap_quote_by_output_token(amount, !a_to_b, slippage_bps, wp, orc, tas, ts, tfa, tfb).map(|q| (q.token_est_in, q.token_out, q.token_max_in, q.trade_fee))
        }
    }));
    match r {
        Ok(Ok((tin, tout, bound, fee))) => json!({"present": true, "ok": true, "in": nu(tin as u128), "out": nu(tout as u128), "bound": nu(bound as u128), "fee": nu(fee as u128), "bps": slippage_bps, "err": ""}),
        Ok(Err(e)) => json!({"present": true, "ok": false, "in": 0, "out": 0, "bound": 0, "fee": 0, "bps": slippage_bps, "err": e}),
        Err(_) => json!({"present": true, "ok": false, "in": 0, "out": 0, "bound": 0, "fee": 0, "bps": slippage_bps, "err": "panic"}),
    }
}

/// The SDK's liquidity quotes (`increase_liquidity_quote` / `decrease_liquidity_quote`: token estimates of a liquidity
/// amount at the pool price, transfer fees of both mints applied, slippage-adjusted maxima / minima) on the pre-state.
#[allow(clippy::too_many_arguments)]
pub fn quote_liquidity(bank: &Bank, pool: &Pubkey, mint_a: &Pubkey, mint_b: &Pubkey, lo: i32, up: i32, liquidity: u128, increase: bool, epoch: u64, slippage_bps: u16) -> Value {
    let wp = whirlpool_facade(bank, pool);
    let (tfa, tfb) = (transfer_fee_of(bank, mint_a, epoch), transfer_fee_of(bank, mint_b, epoch));
    let r = std::panic::catch_unwind(std::panic::AssertUnwindSafe(|| {
        if increase {
            core_sdk::increase_liquidity_quote(liquidity, slippage_bps, wp.sqrt_price, lo, up, tfa, tfb).map(|q| (q.token_est_a, q.token_est_b, q.token_max_a, q.token_max_b))
        } else {
            core_sdk::decrease_liquidity_quote(liquidity, slippage_bps, wp.sqrt_price, lo, up, tfa, tfb).map(|q| (q.token_est_a, q.token_est_b, q.token_min_a, q.token_min_b))
        }
    }));
    match r {
        Ok(Ok((ea, eb, ba, bb))) => json!({"present": true, "ok": true, "estA": nu(ea as u128), "estB": nu(eb as u128), "boundA": nu(ba as u128), "boundB": nu(bb as u128), "bps": slippage_bps, "err": ""}),
        Ok(Err(e)) => json!({"present": true, "ok": false, "estA": 0, "estB": 0, "boundA": 0, "boundB": 0, "bps": slippage_bps, "err": e}),
        Err(_) => json!({"present": true, "ok": false, "estA": 0, "estB": 0, "boundA": 0, "boundB": 0, "bps": slippage_bps, "err": "panic"}),
    }
}

fn position_facade(bank: &Bank, key: &Pubkey) -> Option<(Pubkey, core_sdk::PositionFacade)> {
    let a = bank.accts.get(key)?;
    if a.owner != whirlpool::ID || a.data.len() < 216 || &a.data[..8] != whirlpool::state::Position::DISCRIMINATOR {
        return None;
    }
    let mut r = project::Rd::new(&a.data, 8);
    let pool = r.key();
    let _mint = r.key();
    let liquidity = r.u128();
    let (lo, up) = (r.i32(), r.i32());
    let cpa = r.u128();
    let oa = r.u64();
    let cpb = r.u128();
    let ob = r.u64();
    let mut ri = [core_sdk::PositionRewardInfoFacade::default(); 3];
    for x in ri.iter_mut() {
        x.growth_inside_checkpoint = r.u128();
        x.amount_owed = r.u64();
    }
    Some((pool, core_sdk::PositionFacade { liquidity, tick_lower_index: lo, tick_upper_index: up, fee_growth_checkpoint_a: cpa, fee_owed_a: oa, fee_growth_checkpoint_b: cpb, fee_owed_b: ob, reward_infos: ri }))
}

/// The SDK's `collect_fees_quote` / `collect_rewards_quote` (no transfer fees: the amounts the position is owed) for a position on
/// the pre-state of an `update_fees_and_rewards`, to be compared with what the program then records as owed.
pub fn quote_owed(bank: &Bank, position: &Pubkey, ta_lower: &Pubkey, ta_upper: &Pubkey, now: u64) -> Value {
    let Some((pool, pos)) = position_facade(bank, position) else { return json!({"present": false}) };
    if !bank.accts.contains_key(&pool) {
        return json!({"present": false});
    }
    let wp = whirlpool_facade(bank, &pool);
    let tick_of = |ta: &Pubkey, t: i32| -> Option<core_sdk::TickFacade> {
        let a = bank.accts.get(ta)?;
        if a.owner != whirlpool::ID || a.data.len() < 8 {
            return None;
        }
        let f = tick_array_facade(bank, ta, 0)?;
        let off = (t - f.start_tick_index).div_euclid(wp.tick_spacing as i32);
        if !(0..88).contains(&off) || (t - f.start_tick_index).rem_euclid(wp.tick_spacing as i32) != 0 {
            return None;
        }
        Some(f.ticks[off as usize])
    };
    let (Some(tl), Some(tu)) = (tick_of(ta_lower, pos.tick_lower_index), tick_of(ta_upper, pos.tick_upper_index)) else { return json!({"present": false}) };
    let fees = std::panic::catch_unwind(std::panic::AssertUnwindSafe(|| core_sdk::collect_fees_quote(wp, pos, tl, tu, None, None)));
    let rewards = std::panic::catch_unwind(std::panic::AssertUnwindSafe(|| core_sdk::collect_rewards_quote(wp, pos, tl, tu, now, None, None, None)));
    let (fee_ok, fa, fb, fee_err) = match fees {
        Ok(Ok(q)) => (true, q.fee_owed_a, q.fee_owed_b, String::new()),
        Ok(Err(e)) => (false, 0, 0, e.to_string()),
        Err(_) => (false, 0, 0, "panic".to_string()),
    };
    let (rw_ok, rw, rw_err) = match rewards {
        Ok(Ok(q)) => (true, [q.rewards[0].rewards_owed, q.rewards[1].rewards_owed, q.rewards[2].rewards_owed], String::new()),
        Ok(Err(e)) => (false, [0; 3], e.to_string()),
        Err(_) => (false, [0; 3], "panic".to_string()),
    };
    json!({"present": true, "feeOk": fee_ok, "feeA": nu(fa as u128), "feeB": nu(fb as u128), "feeErr": fee_err,
           "rwOk": rw_ok, "rw": [nu(rw[0] as u128), nu(rw[1] as u128), nu(rw[2] as u128)], "rwErr": rw_err})
}
