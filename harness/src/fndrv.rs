//! `fn` drivers: calls of the program's pure functions on boundary grids + seeded random inputs,
//! one ndjson event per call; the TLA+ contracts (module WpFn) are the oracle.
use crate::project::{ni, nu};
use rand::{Rng, SeedableRng};
use rand_chacha::ChaCha8Rng;
use serde_json::{json, Value};
use std::io::Write;
use whirlpool::math::*;

pub const MIN_SQRT_PRICE: u128 = 4295048016;
pub const MAX_SQRT_PRICE: u128 = 79226673515401279992447579055;
pub const MIN_TICK: i32 = -443636;
pub const MAX_TICK: i32 = 443636;

pub struct Out {
    pub w: Box<dyn Write>,
    pub n: usize,
    pub ok: usize,
    pub resets: usize,
    pub samples: Vec<Value>,
    pub distinct: std::collections::BTreeSet<String>,
}
impl Out {
    pub fn new(path: &str) -> Out {
        let f = std::fs::File::create(path).unwrap();
        Out { w: Box::new(std::io::BufWriter::new(f)), n: 0, ok: 0, resets: 0, samples: vec![], distinct: Default::default() }
    }
    pub fn emit(&mut self, v: Value, ok: bool, class: String) {
        serde_json::to_writer(&mut self.w, &v).unwrap();
        self.w.write_all(b"\n").unwrap();
        self.n += 1;
        if v["k"].as_str().map(|k| k.ends_with("reset")).unwrap_or(false) {
            self.resets += 1;
        }
        if ok {
            self.ok += 1;
        }
        if self.samples.len() < 3 && ok {
            self.samples.push(v);
        }
        self.distinct.insert(class);
    }
    pub fn stats(&self) -> Value {
        json!({"stats": {"events": self.n, "resets": self.resets.max(1), "ok_calls": self.ok, "classes": self.distinct.len(), "by_ix": {}}, "samples": self.samples})
    }
}

fn log_u128(r: &mut ChaCha8Rng, max_bits: u32) -> u128 {
    let b = r.gen_range(0..max_bits);
    let base = 1u128 << b;
    base + (r.gen::<u128>() % base)
}

fn interesting_prices(r: &mut ChaCha8Rng) -> Vec<u128> {
    let mut v = vec![MIN_SQRT_PRICE, MIN_SQRT_PRICE + 1, MAX_SQRT_PRICE, MAX_SQRT_PRICE - 1, 1u128 << 64, (1u128 << 64) + 1, (1u128 << 64) - 1];
    for _ in 0..6 {
        let t = r.gen_range(MIN_TICK..MAX_TICK);
        let p = sqrt_price_from_tick_index(t);
        v.push(p);
        v.push((p + 1).min(MAX_SQRT_PRICE));
        v.push(p.saturating_sub(1).max(MIN_SQRT_PRICE));
    }
    v
}

fn rand_price(r: &mut ChaCha8Rng) -> u128 {
    match r.gen_range(0..4) {
        0 => {
            let t = r.gen_range(MIN_TICK..=MAX_TICK);
            sqrt_price_from_tick_index(t)
        }
        1 => {
            let t = r.gen_range(-30000..30000);
            let p = sqrt_price_from_tick_index(t);
            p + r.gen_range(0..1000)
        }
        _ => {
            let t = r.gen_range(MIN_TICK..MAX_TICK);
            let (a, b) = (sqrt_price_from_tick_index(t), sqrt_price_from_tick_index(t + 1));
            a + r.gen::<u128>() % (b - a)
        }
    }
}

fn rand_liq(r: &mut ChaCha8Rng) -> u128 {
    let special = [0u128, 1, 2, (1 << 32) - 1, 1 << 32, (1 << 32) + 1, (1 << 64) - 1, 1 << 64, (1 << 64) + 1, 1 << 96, 1 << 127, u128::MAX];
    if r.gen_bool(0.15) {
        special[r.gen_range(0..special.len())]
    } else {
        log_u128(r, 110)
    }
}

fn rand_amount(r: &mut ChaCha8Rng) -> u64 {
    let special = [0u64, 1, 2, (1 << 32) - 1, 1 << 32, u64::MAX - 1, u64::MAX];
    if r.gen_bool(0.15) {
        special[r.gen_range(0..special.len())]
    } else {
        log_u128(r, 64) as u64
    }
}

/// Step inputs whose exact quotient lies within a few 2^-64 of an integer (solved for the liquidity):
/// next price when token A is the fixed side, p' = L*p*2^64 / (L*2^64 +/- a*p), and the token-A amount of a price
/// move, L*2^64*(p1-p0) / (p0*p1).  Big-number arithmetic of the harness' own U256 (uint crate), not the program's.
fn near_integer_cases(r: &mut ChaCha8Rng) -> Vec<(u64, u32, u128, u128, u128, bool, bool)> {
    use ethnum::U256;
    let mut v = vec![];
    let q64 = U256::from(1u128) << 64u32;
    let fits = |x: U256| -> Option<u128> { if x.into_words().0 == 0 { Some(x.as_u128()) } else { None } };
    // a price: half of the time in [2^63, 2^64) (two-word result of the three-word division), else anywhere
    let p: u128 = if r.gen_bool(0.5) { (1u128 << 63) + (r.gen::<u128>() % (1u128 << 63)) } else { rand_price(r) };
    let a: u64 = (log_u128(r, 50) as u64).max(2);
    let dmax = (((a / 2) as f64).sqrt() as u128).max(1);
    let delta: u128 = 1 + r.gen::<u128>() % dmax;
    let rate = [0u32, 3000, 10000][r.gen_range(0..3)];
    // (1) exact-in a->b: the price falls to about p - delta for a net budget of a
    if p > MIN_SQRT_PRICE + delta + 1 {
        let q = p - delta;
        let l0 = U256::from(q) * U256::from(a as u128) * U256::from(p) / (q64 * U256::from(delta));
        for k in [0u128, 1, 2] {
            if let Some(l) = fits(l0 + U256::from(k)) {
                let gross = ((a as u128) * 1_000_000).div_ceil(1_000_000 - rate as u128);
                if gross <= u64::MAX as u128 {
                    v.push((gross as u64, rate, l, p, MIN_SQRT_PRICE.max(p - p / 4), true, true));
                }
            }
        }
    }
    // (2) exact-out b->a: the price rises to about p + delta to deliver a
    if p + delta < MAX_SQRT_PRICE {
        let q = p + delta;
        let l0 = U256::from(q) * U256::from(a as u128) * U256::from(p) / (q64 * U256::from(delta));
        for k in [0u128, 1, 2] {
            if let Some(l) = fits(l0 + U256::from(k)) {
                v.push((a, rate, l, p, MAX_SQRT_PRICE.min(p + p / 4), false, false));
            }
        }
    }
    // (3) the token-A amount of a whole segment (target reached): an amount just above / below an integer, often >= 2^63
    let p0: u128 = (1u128 << 64) + r.gen::<u128>() % (1u128 << r.gen_range(40..66));
    let p1: u128 = p0 + 1 + r.gen::<u128>() % (p0 / 4);
    let amt: u128 = if r.gen_bool(0.6) { (1u128 << 63) + r.gen::<u128>() % (1u128 << 63) } else { log_u128(r, 63).max(2) };
    let l0 = U256::from(amt) * U256::from(p0) * U256::from(p1) / (q64 * U256::from(p1 - p0));
    for k in [0u128, 1] {
        if let Some(l) = fits(l0 + U256::from(k)) {
            v.push((u64::MAX, 0, l, p1, p0, true, true));        // exact-in a->b takes ceil(amount of A)
            v.push((u64::MAX, 0, l, p0, p1, false, false));      // exact-out b->a pays floor(amount of A)
        }
    }
    v
}

fn step_event(out: &mut Out, rem: u64, rate: u32, liq: u128, pc: u128, pt: u128, exact_in: bool, a_to_b: bool, why: &str) {
    let r = match std::panic::catch_unwind(|| compute_swap(rem, rate, liq, pc, pt, exact_in, a_to_b)) {
        Ok(r) => r,
        Err(_) => {
            // a panic of the code under test is data: a failed computation
            let v = json!({"k": "step", "rem": nu(rem as u128), "rate": rate, "L": nu(liq), "pc": nu(pc), "pt": nu(pt), "exactIn": exact_in, "aToB": a_to_b, "why": why, "ok": false, "err": "panic"});
            out.emit(v, false, format!("{why}:panic"));
            return;
        }
    };
    let mut v = json!({"k": "step", "rem": nu(rem as u128), "rate": rate, "L": nu(liq), "pc": nu(pc), "pt": nu(pt), "exactIn": exact_in, "aToB": a_to_b, "why": why});
    let ok = r.is_ok();
    match r {
        Ok(c) => {
            v["ok"] = json!(true);
            v["in"] = nu(c.amount_in as u128);
            v["out"] = nu(c.amount_out as u128);
            v["fee"] = nu(c.fee_amount as u128);
            v["p1"] = nu(c.next_price);
        }
        Err(e) => {
            v["ok"] = json!(false);
            v["err"] = json!(format!("{e:?}"));
        }
    }
    let class = format!("{why}:{exact_in}:{a_to_b}:{ok}:{}", (128 - liq.leading_zeros()) / 16);
    out.emit(v, ok, class);
}

/// C02 / C06(step fee): compute_swap on boundary grid + random + budget-boundary inputs.
pub fn quiet_panics() {
    std::panic::set_hook(Box::new(|_| {}));
}

pub fn steps(seed: u64, n: usize, out: &mut Out) {
    quiet_panics();
    let mut r = ChaCha8Rng::seed_from_u64(seed);
    let rates = [0u32, 1, 100, 500, 3000, 10000, 60000, 99999, 100000];
    let mut count = 0;
    while count < n {
        let exact_in = r.gen_bool(0.5);
        let a_to_b = r.gen_bool(0.5);
        let rate = if r.gen_bool(0.7) { rates[r.gen_range(0..rates.len())] } else { r.gen_range(0..=100000) };
        let liq = rand_liq(&mut r);
        // ordered price pair
        let (mut p0, mut p1) = if r.gen_bool(0.2) {
            let ps = interesting_prices(&mut r);
            (ps[r.gen_range(0..ps.len())], ps[r.gen_range(0..ps.len())])
        } else {
            let a = rand_price(&mut r);
            let b = match r.gen_range(0..3) {
                0 => rand_price(&mut r),
                1 => a.saturating_add(log_u128(&mut r, 70)).min(MAX_SQRT_PRICE),
                _ => a.saturating_sub(log_u128(&mut r, 70)).max(MIN_SQRT_PRICE),
            };
            (a, b)
        };
        if p0 < p1 {
            std::mem::swap(&mut p0, &mut p1);
        }
        // a_to_b: price goes down: current = hi, target = lo
        let (pc, pt) = if a_to_b { (p0, p1) } else { (p1, p0) };
        // plain random amount
        step_event(out, rand_amount(&mut r), rate, liq, pc, pt, exact_in, a_to_b, "rand");
        count += 1;
        // budget-boundary amounts: the net budget equal to / one off the amount that reaches the target
        let fixed = std::panic::catch_unwind(|| if a_to_b == exact_in { try_get_amount_delta_a(pc, pt, liq, exact_in) } else { try_get_amount_delta_b(pc, pt, liq, exact_in) })
            .unwrap_or(Err(whirlpool::errors::ErrorCode::MultiplicationOverflow));
        if let Ok(AmountDeltaU64::Valid(f)) = fixed {
            let targets: Vec<u64> = if exact_in {
                // smallest gross amount whose net is >= f, and its neighbours
                let g = ((f as u128) * 1_000_000).div_ceil(1_000_000 - rate as u128);
                if g <= u64::MAX as u128 { vec![g as u64, (g as u64).saturating_sub(1), (g as u64).saturating_add(1), (g as u64).saturating_sub(2)] } else { vec![] }
            } else {
                vec![f, f.saturating_sub(1), f.saturating_add(1)]
            };
            for t in targets {
                step_event(out, t, rate, liq, pc, pt, exact_in, a_to_b, "budget");
                count += 1;
            }
        }
        // quotients just above / below an integer: the rounding of the next price (token A fixed) and of the token-A
        // amount decides on the last bit of a multi-word division
        if r.gen_bool(0.25) {
            for (rem, rate2, l2, c2, t2, ei, ab) in near_integer_cases(&mut r) {
                step_event(out, rem, rate2, l2, c2, t2, ei, ab, "nearint");
                count += 1;
            }
        }
        // tiny amounts against huge liquidity and vice versa
        if r.gen_bool(0.1) {
            step_event(out, r.gen_range(0..4), rate, liq, pc, pt, exact_in, a_to_b, "tiny");
            count += 1;
        }
    }
    out.w.flush().unwrap();
}

/// C09: tick -> sqrt-price table (chunks) and sqrt-price -> tick queries.
pub fn ticks(seed: u64, stride: i32, random_queries: usize, lo: i32, hi: i32, out: &mut Out) {
    let mut r = ChaCha8Rng::seed_from_u64(seed);
    // forward table in chunks of 512 consecutive ticks (consecutive pairs are needed for the ratio test)
    let mut wanted: Vec<i32> = vec![];
    if stride <= 1 {
        wanted.extend(lo..=hi);
    } else {
        // every `stride`-th window of 8 consecutive ticks + neighbourhoods of powers of two, zero and the bounds
        let mut t = lo;
        while t <= hi {
            for d in 0..8 {
                if t + d <= hi {
                    wanted.push(t + d);
                }
            }
            t += stride;
        }
        let mut centers = vec![0i32, MIN_TICK + 64, MAX_TICK - 64];
        for b in 0..19 {
            centers.push(1 << b);
            centers.push(-(1 << b));
        }
        for c in centers {
            for d in -64..=64 {
                let x = c + d;
                if x >= lo && x <= hi && x >= MIN_TICK && x <= MAX_TICK {
                    wanted.push(x);
                }
            }
        }
        wanted.sort();
        wanted.dedup();
    }
    // split into runs of consecutive ticks
    let mut i = 0;
    while i < wanted.len() {
        let mut j = i;
        while j + 1 < wanted.len() && wanted[j + 1] == wanted[j] + 1 && j + 1 - i < 512 {
            j += 1;
        }
        let start = wanted[i];
        let prices: Vec<Value> = (i..=j).map(|k| nu(sqrt_price_from_tick_index(wanted[k]))).collect();
        // inverse queries at every tick price and one unit either side: [q, answer, price(answer), price(answer+1)]
        let mut q = vec![];
        for k in i..=j {
            let p = sqrt_price_from_tick_index(wanted[k]);
            for pp in [p.saturating_sub(1).max(MIN_SQRT_PRICE), p, (p + 1).min(MAX_SQRT_PRICE)] {
                let t = tick_index_from_sqrt_price(&pp);
                let tc = t.clamp(MIN_TICK, MAX_TICK);
                let pn = if tc < MAX_TICK { sqrt_price_from_tick_index(tc + 1) } else { 0 };
                q.push(json!([nu(pp), t, nu(sqrt_price_from_tick_index(tc)), nu(pn)]));
            }
        }
        // the successor price of the last tick of the run is needed for the inverse contract
        let next = if wanted[j] < MAX_TICK { nu(sqrt_price_from_tick_index(wanted[j] + 1)) } else { json!(0) };
        out.emit(json!({"k": "ticks", "start": start, "prices": prices, "next": next, "queries": q}), true, format!("run{}", start / 4096));
        i = j + 1;
    }
    // structured interior queries (in the shard that holds tick 0): sqrt-prices whose binary form is special for the log2 bit-walk of
    // the inverse conversion - powers of two, a power of two plus / minus every smaller power of two (and one unit either side):
    // all-ones mantissas, single low bits, carries out of the mantissa normalisation
    let mut qs = vec![];
    if lo <= 0 && hi >= 0 {
        let mut ps: Vec<u128> = vec![];
        for k in 32u32..=96 {
            let base = 1u128 << k;
            for j in 0..k {
                let d = 1u128 << j;
                for dd in [d.saturating_sub(1), d, d + 1] {
                    ps.push(base - dd);
                    ps.push(base + dd);
                }
            }
            ps.push(base);
        }
        ps.retain(|p| *p >= MIN_SQRT_PRICE && *p <= MAX_SQRT_PRICE);
        ps.sort();
        ps.dedup();
        for (n, p) in ps.iter().enumerate() {
            let t = tick_index_from_sqrt_price(p);
            let pt = sqrt_price_from_tick_index(t.clamp(MIN_TICK, MAX_TICK));
            let pn = if t < MAX_TICK { sqrt_price_from_tick_index((t + 1).clamp(MIN_TICK, MAX_TICK)) } else { 0 };
            qs.push(json!([nu(*p), t, nu(pt), nu(pn)]));
            if qs.len() == 256 {
                out.emit(json!({"k": "pqueries", "q": qs}), true, format!("pow2q{}", n / 4096));
                qs = vec![];
            }
        }
    }
    // random interior queries: each carries the prices of the answered tick and its successor
    for n in 0..random_queries {
        let p = match n % 4 {
            0 => MIN_SQRT_PRICE + (r.gen::<u128>() % 1_000_000),
            1 => MAX_SQRT_PRICE - (r.gen::<u128>() % 1_000_000),
            _ => rand_price(&mut r),
        };
        let t = tick_index_from_sqrt_price(&p);
        let pt = sqrt_price_from_tick_index(t.clamp(MIN_TICK, MAX_TICK));
        let pn = if t < MAX_TICK { sqrt_price_from_tick_index((t + 1).clamp(MIN_TICK, MAX_TICK)) } else { 0 };
        qs.push(json!([nu(p), t, nu(pt), nu(pn)]));
        if qs.len() == 256 {
            out.emit(json!({"k": "pqueries", "q": qs}), true, format!("pq{}", n / 4096));
            qs = vec![];
        }
    }
    if !qs.is_empty() {
        out.emit(json!({"k": "pqueries", "q": qs}), true, "pq".into());
    }
    out.w.flush().unwrap();
}

/// C08 (pure functions): token deltas through the Anchor function and the Pinocchio port, and
/// liquidity estimation from token maxima.
pub fn deltas(seed: u64, n: usize, out: &mut Out) {
    quiet_panics();
    use whirlpool::manager::liquidity_manager::calculate_liquidity_token_deltas;
    use whirlpool::pinocchio::verif_export::ported::manager_liquidity_manager::pino_calculate_liquidity_token_deltas;
    use whirlpool::pinocchio::verif_export::state::whirlpool::MemoryMappedPosition;
    let mut r = ChaCha8Rng::seed_from_u64(seed);
    let spacings = [1u16, 2, 8, 64, 128, 256, 32896];
    for _ in 0..n {
        let sp_ = spacings[r.gen_range(0..spacings.len())] as i32;
        let lo_min = (MIN_TICK / sp_) * sp_;
        let (lo, up) = if sp_ >= 32768 {
            (lo_min, -lo_min)
        } else {
            let a = r.gen_range(lo_min / sp_..=-lo_min / sp_) * sp_;
            let w = match r.gen_range(0..3) {
                0 => 1,
                1 => r.gen_range(1..100),
                _ => r.gen_range(1..20000),
            } * sp_;
            let b = (a + w).min(-lo_min);
            if a == b { (a - sp_, a) } else { (a, b) }
        };
        let (plo, pup) = (sqrt_price_from_tick_index(lo), sqrt_price_from_tick_index(up));
        // pool state: price relative to the range incl. exactly on a bound, one unit either side, shifted-tick state
        let (sqrt_price, tick) = match r.gen_range(0..10) {
            0 => (plo, lo),
            1 => (plo, lo - 1), // shifted state after a downward crossing
            2 => (pup, up),
            3 => (pup, up - 1),
            4 => ((plo - 1).max(MIN_SQRT_PRICE), tick_index_from_sqrt_price(&(plo - 1).max(MIN_SQRT_PRICE))),
            5 => ((pup + 1).min(MAX_SQRT_PRICE), tick_index_from_sqrt_price(&(pup + 1).min(MAX_SQRT_PRICE))),
            6 => {
                let p = pup + r.gen::<u128>() % (sqrt_price_from_tick_index((up + 1).min(MAX_TICK)).max(pup + 1) - pup);
                let p = p.min(MAX_SQRT_PRICE);
                (p, tick_index_from_sqrt_price(&p))
            }
            7 => {
                let p = rand_price(&mut r);
                (p, tick_index_from_sqrt_price(&p))
            }
            _ => {
                let p = plo + r.gen::<u128>() % (pup - plo);
                (p, tick_index_from_sqrt_price(&p))
            }
        };
        let liq = rand_liq(&mut r).min(i128::MAX as u128);
        let delta: i128 = if r.gen_bool(0.5) { liq as i128 } else { -(liq as i128) };
        // Anchor
        let position = whirlpool::state::Position { tick_lower_index: lo, tick_upper_index: up, ..Default::default() };
        let ra = std::panic::catch_unwind(|| calculate_liquidity_token_deltas(tick, sqrt_price, &position, delta)).unwrap_or(Err(whirlpool::errors::ErrorCode::MultiplicationOverflow.into()));
        // Pinocchio: a memory-mapped position over serialized bytes
        let mut bytes = vec![0u8; 216];
        bytes[8 + 64 + 16..8 + 64 + 20].copy_from_slice(&lo.to_le_bytes());
        bytes[8 + 64 + 20..8 + 64 + 24].copy_from_slice(&up.to_le_bytes());
        let mp: &MemoryMappedPosition = unsafe { &*(bytes.as_ptr() as *const MemoryMappedPosition) };
        let rp = std::panic::catch_unwind(|| pino_calculate_liquidity_token_deltas(tick, sqrt_price, mp, delta)).unwrap_or(Err(whirlpool::errors::ErrorCode::MultiplicationOverflow.into()));
        let enc = |x: &Result<(u64, u64), String>| match x {
            Ok((a, b)) => json!({"ok": true, "a": nu(*a as u128), "b": nu(*b as u128)}),
            Err(e) => json!({"ok": false, "err": e}),
        };
        let ra2 = ra.map_err(|e| format!("{e:?}"));
        let rp2 = rp.map_err(|e| format!("{:?}", u64::from(e)));
        let ok = ra2.is_ok();
        out.emit(
            json!({"k": "deltas", "tick": tick, "sp": nu(sqrt_price), "lo": lo, "up": up, "pLo": nu(plo), "pUp": nu(pup), "L": nu(liq), "increase": delta > 0, "zero": delta == 0,
                   "anchor": enc(&ra2), "pino": enc(&rp2)}),
            ok,
            format!("d:{}:{}:{}", delta > 0, (tick < lo) as u8 + (tick < up) as u8, ok),
        );
        // liquidity from token maxima
        if r.gen_bool(0.5) {
            let (ma, mb) = (rand_amount(&mut r), rand_amount(&mut r));
            let e = std::panic::catch_unwind(|| estimate_max_liquidity_from_token_amounts(sqrt_price, lo, up, ma, mb)).unwrap_or(Err(whirlpool::errors::ErrorCode::MultiplicationOverflow));
            let mut v = json!({"k": "maxliq", "sp": nu(sqrt_price), "lo": lo, "up": up, "pLo": nu(plo), "pUp": nu(pup), "maxA": nu(ma as u128), "maxB": nu(mb as u128)});
            let ok = e.is_ok();
            match e {
                Ok(l) => {
                    v["ok"] = json!(true);
                    v["L"] = nu(l);
                }
                Err(er) => {
                    v["ok"] = json!(false);
                    v["err"] = json!(format!("{er:?}"));
                }
            }
            out.emit(v, ok, format!("m:{}:{}", (sqrt_price <= plo) as u8 + (sqrt_price < pup) as u8, ok));
        }
    }
    out.w.flush().unwrap();
    let _ = ni(0);
}

/// C12 (views): random field values written through the Anchor serializers and read through every
/// Pinocchio getter; Pinocchio setters vs the Anchor mutators; and the shift-subtract usable-tick lookup.
pub fn views(seed: u64, n: usize, out: &mut Out) {
    use anchor_lang::AccountSerialize;
    use whirlpool::pinocchio::verif_export::state::whirlpool::tick_array::TickArray as _;
    use whirlpool::pinocchio::verif_export::state::whirlpool::{tick_array as pta, MemoryMappedPosition, MemoryMappedWhirlpool};
    use whirlpool::state::{Position, PositionRewardInfo, PositionUpdate, Whirlpool, WhirlpoolRewardInfo};
    quiet_panics();
    let mut r = ChaCha8Rng::seed_from_u64(seed);
    let key = |r: &mut ChaCha8Rng| anchor_lang::prelude::Pubkey::new_from_array(r.gen());
    let wide = |r: &mut ChaCha8Rng| -> u128 {
        match r.gen_range(0..5) {
            0 => 0,
            1 => 1,
            2 => 1u128 << 127,
            3 => u128::MAX,
            _ => r.gen(),
        }
    };
    for i in 0..n {
        // ---- whirlpool
        let mut wp = Whirlpool { whirlpools_config: key(&mut r), whirlpool_bump: [r.gen()], tick_spacing: r.gen(), fee_tier_index_seed: r.gen(), fee_rate: r.gen(), protocol_fee_rate: r.gen(), liquidity: wide(&mut r), sqrt_price: wide(&mut r), tick_current_index: r.gen(), protocol_fee_owed_a: r.gen(), protocol_fee_owed_b: r.gen(), token_mint_a: key(&mut r), token_vault_a: key(&mut r), fee_growth_global_a: wide(&mut r), token_mint_b: key(&mut r), token_vault_b: key(&mut r), fee_growth_global_b: wide(&mut r), reward_last_updated_timestamp: r.gen(), reward_infos: [WhirlpoolRewardInfo::default(); 3] };
        for k in 0..3 {
            wp.reward_infos[k] = WhirlpoolRewardInfo { mint: key(&mut r), vault: key(&mut r), extension: r.gen(), emissions_per_second_x64: wide(&mut r), growth_global_x64: wide(&mut r) };
        }
        let mut bytes: Vec<u8> = vec![];
        wp.try_serialize(&mut bytes).unwrap();
        let mut buf = vec![0u64; bytes.len() / 8 + 2];
        unsafe { std::ptr::copy_nonoverlapping(bytes.as_ptr(), buf.as_mut_ptr() as *mut u8, bytes.len()) };
        let mm: &mut MemoryMappedWhirlpool = unsafe { &mut *(buf.as_mut_ptr() as *mut MemoryMappedWhirlpool) };
        let mut bad: Vec<&str> = vec![];
        let kb = |k: &anchor_lang::prelude::Pubkey| k.to_bytes();
        if mm.tick_spacing() != wp.tick_spacing { bad.push("tick_spacing") }
        if mm.liquidity() != wp.liquidity { bad.push("liquidity") }
        if mm.sqrt_price() != wp.sqrt_price { bad.push("sqrt_price") }
        if mm.tick_current_index() != wp.tick_current_index { bad.push("tick_current_index") }
        if *mm.token_mint_a() != kb(&wp.token_mint_a) { bad.push("token_mint_a") }
        if *mm.token_mint_b() != kb(&wp.token_mint_b) { bad.push("token_mint_b") }
        if *mm.token_vault_a() != kb(&wp.token_vault_a) { bad.push("token_vault_a") }
        if *mm.token_vault_b() != kb(&wp.token_vault_b) { bad.push("token_vault_b") }
        if mm.fee_growth_global_a() != wp.fee_growth_global_a { bad.push("fee_growth_global_a") }
        if mm.fee_growth_global_b() != wp.fee_growth_global_b { bad.push("fee_growth_global_b") }
        if mm.reward_last_updated_timestamp() != wp.reward_last_updated_timestamp { bad.push("reward_last_updated_timestamp") }
        for k in 0..3 {
            let ri = &mm.reward_infos()[k];
            if *ri.mint() != kb(&wp.reward_infos[k].mint) || *ri.vault() != kb(&wp.reward_infos[k].vault) || *ri.extension() != wp.reward_infos[k].extension || ri.emissions_per_second_x64() != wp.reward_infos[k].emissions_per_second_x64 || ri.growth_global_x64() != wp.reward_infos[k].growth_global_x64 || ri.initialized() != wp.reward_infos[k].initialized() {
                bad.push("reward_info");
            }
        }
        // setter
        let (nl, ng, nts): (u128, [u128; 3], u64) = (wide(&mut r), [wide(&mut r), wide(&mut r), wide(&mut r)], r.gen());
        mm.update_liquidity_and_reward_growth_global(nl, &ng, nts);
        let mut infos = wp.reward_infos;
        for k in 0..3 {
            infos[k].growth_global_x64 = ng[k];
        }
        wp.update_rewards_and_liquidity(infos, nl, nts);
        let mut bytes2: Vec<u8> = vec![];
        wp.try_serialize(&mut bytes2).unwrap();
        let after = unsafe { std::slice::from_raw_parts(buf.as_ptr() as *const u8, bytes2.len()) };
        out.emit(json!({"k": "view", "kind": "whirlpool", "mismatch": bad, "setterSame": after == &bytes2[..]}), true, "view:wp".into());

        // ---- position
        let mut pos = Position { whirlpool: key(&mut r), position_mint: key(&mut r), liquidity: wide(&mut r), tick_lower_index: r.gen(), tick_upper_index: r.gen(), fee_growth_checkpoint_a: wide(&mut r), fee_owed_a: r.gen(), fee_growth_checkpoint_b: wide(&mut r), fee_owed_b: r.gen(), reward_infos: [PositionRewardInfo::default(); 3] };
        for k in 0..3 {
            pos.reward_infos[k] = PositionRewardInfo { growth_inside_checkpoint: wide(&mut r), amount_owed: r.gen() };
        }
        let mut pb: Vec<u8> = vec![];
        pos.try_serialize(&mut pb).unwrap();
        pb.resize(216, 0);
        let mut pbuf = vec![0u64; 216 / 8 + 1];
        unsafe { std::ptr::copy_nonoverlapping(pb.as_ptr(), pbuf.as_mut_ptr() as *mut u8, pb.len()) };
        let mp: &mut MemoryMappedPosition = unsafe { &mut *(pbuf.as_mut_ptr() as *mut MemoryMappedPosition) };
        let mut bad: Vec<&str> = vec![];
        if *mp.whirlpool() != kb(&pos.whirlpool) { bad.push("whirlpool") }
        if *mp.position_mint() != kb(&pos.position_mint) { bad.push("position_mint") }
        if mp.liquidity() != pos.liquidity { bad.push("liquidity") }
        if mp.tick_lower_index() != pos.tick_lower_index { bad.push("tick_lower_index") }
        if mp.tick_upper_index() != pos.tick_upper_index { bad.push("tick_upper_index") }
        if mp.fee_growth_checkpoint_a() != pos.fee_growth_checkpoint_a { bad.push("fee_growth_checkpoint_a") }
        if mp.fee_growth_checkpoint_b() != pos.fee_growth_checkpoint_b { bad.push("fee_growth_checkpoint_b") }
        if mp.fee_owed_a() != pos.fee_owed_a { bad.push("fee_owed_a") }
        if mp.fee_owed_b() != pos.fee_owed_b { bad.push("fee_owed_b") }
        for k in 0..3 {
            if mp.reward_infos()[k].growth_inside_checkpoint() != pos.reward_infos[k].growth_inside_checkpoint || mp.reward_infos()[k].amount_owed() != pos.reward_infos[k].amount_owed {
                bad.push("reward_info");
            }
        }
        let mut upd = PositionUpdate { liquidity: wide(&mut r), fee_growth_checkpoint_a: wide(&mut r), fee_owed_a: r.gen(), fee_growth_checkpoint_b: wide(&mut r), fee_owed_b: r.gen(), reward_infos: [PositionRewardInfo::default(); 3] };
        for k in 0..3 {
            upd.reward_infos[k] = PositionRewardInfo { growth_inside_checkpoint: wide(&mut r), amount_owed: r.gen() };
        }
        mp.update(&upd);
        pos.update(&upd);
        let mut pb2: Vec<u8> = vec![];
        pos.try_serialize(&mut pb2).unwrap();
        let after = unsafe { std::slice::from_raw_parts(pbuf.as_ptr() as *const u8, pb2.len()) };
        out.emit(json!({"k": "view", "kind": "position", "mismatch": bad, "setterSame": after == &pb2[..]}), true, "view:pos".into());

        // ---- usable-tick lookup of the Pinocchio tick arrays (manual shift-subtract division)
        let spacings = [1u16, 2, 3, 8, 64, 96, 128, 256, 32896, u16::MAX];
        let sp = spacings[i % spacings.len()];
        let span = 88 * sp as i32;
        let start = match r.gen_range(0..4) {
            0 => 0,
            1 => (MIN_TICK / span - 1) * span,
            2 => (MAX_TICK / span) * span,
            _ => r.gen_range(-400000 / span..=400000 / span) * span,
        };
        let mut arr = vec![0u64; (8 + 36 + 113 * 88) / 8 + 2];
        unsafe { std::ptr::copy_nonoverlapping(start.to_le_bytes().as_ptr(), (arr.as_mut_ptr() as *mut u8).add(8), 4) };
        let fa: &pta::fixed_tick_array::MemoryMappedFixedTickArray = unsafe { &*(arr.as_ptr() as *const _) };
        let mut qs = vec![];
        for _ in 0..24 {
            let slot = match r.gen_range(0..4) {
                0 => r.gen_range(-2..3),
                1 => r.gen_range(85..91),
                2 => r.gen_range(62..67),
                _ => r.gen_range(0..88),
            };
            let t = start + slot * sp as i32 + if sp > 1 && r.gen_bool(0.3) { r.gen_range(1..sp as i32) } else { 0 };
            let res = fa.check_is_usable_tick_and_get_offset(t, sp);
            qs.push(json!([t, res.map(|o| o as i64).unwrap_or(-1)]));
        }
        out.emit(json!({"k": "usable", "start": start, "spacing": sp, "q": qs}), true, format!("usable:{sp}"));
    }
    out.w.flush().unwrap();
}

/// C16 (pure functions): transfer-fee excluded / included conversions through the Anchor functions and
/// the Pinocchio copies (hand-written TLV parser), on mints whose fee extension sits at different
/// positions among other extensions, for both epoch schedules.
pub fn tfee(seed: u64, n: usize, out: &mut Out) {
    use anchor_lang::prelude::{AccountInfo, InterfaceAccount};
    use whirlpool::pinocchio::verif_export::ported::util_token::{pino_calculate_transfer_fee_excluded_amount, pino_calculate_transfer_fee_included_amount};
    use whirlpool::util::{calculate_transfer_fee_excluded_amount, calculate_transfer_fee_included_amount};
    quiet_panics();
    crate::svm::init();
    let mut r = ChaCha8Rng::seed_from_u64(seed);
    for _ in 0..n {
        // ---- a token-2022 mint with a transfer fee config (and other extensions before / after it)
        let bps_set = [0u16, 1, 2, 30, 100, 250, 2500, 5000, 9999, 10000];
        let max_set = [0u64, 1, 2, 1000, 5_000_000, u64::MAX - 1, u64::MAX];
        let older = (r.gen_range(0..20u64), max_set[r.gen_range(0..max_set.len())], bps_set[r.gen_range(0..bps_set.len())]);
        let newer = (r.gen_range(0..20u64), if r.gen_bool(0.5) { max_set[r.gen_range(0..max_set.len())] } else { log_u128(&mut r, 64) as u64 }, if r.gen_bool(0.6) { bps_set[r.gen_range(0..bps_set.len())] } else { r.gen_range(0..=10000) });
        let epoch = r.gen_range(0..22u64);
        crate::svm::set_epoch(epoch);
        let mut data = vec![0u8; 82];
        data[0..4].copy_from_slice(&1u32.to_le_bytes());
        data[45] = 1; // is_initialized
        data[44] = 6;
        data.resize(165, 0);
        data.push(1); // account type: mint
        let tlv = |t: u16, body: Vec<u8>| -> Vec<u8> {
            let mut v = t.to_le_bytes().to_vec();
            v.extend_from_slice(&(body.len() as u16).to_le_bytes());
            v.extend(body);
            v
        };
        let mut fee_body = vec![0u8; 64];
        fee_body.extend_from_slice(&0u64.to_le_bytes());
        for c in [older, newer] {
            fee_body.extend_from_slice(&c.0.to_le_bytes());
            fee_body.extend_from_slice(&c.1.to_le_bytes());
            fee_body.extend_from_slice(&c.2.to_le_bytes());
        }
        let before = r.gen_range(0..3);
        for _ in 0..before {
            // metadata pointer (18) / interest bearing (10) style bodies of arbitrary content
            let t = [18u16, 10, 14][r.gen_range(0..3)];
            let len = match t { 18 => 64, 10 => 52, _ => 64 };
            data.extend(tlv(t, (0..len).map(|_| r.gen()).collect()));
        }
        data.extend(tlv(1, fee_body));
        for _ in 0..r.gen_range(0..2) {
            data.extend(tlv(18, (0..64).map(|_| r.gen()).collect()));
        }
        let sel = if epoch >= newer.0 { newer } else { older };
        // amounts: boundary set incl. around maxFee * 10^4 / bps
        let mut amounts: Vec<u64> = vec![0, 1, 2, 9999, 10000, 10001, u64::MAX, u64::MAX - 1, rand_amount(&mut r), rand_amount(&mut r)];
        if sel.2 > 0 {
            let knee = ((sel.1 as u128) * 10000 / sel.2 as u128).min(u64::MAX as u128) as u64;
            for d in [0u64, 1, 2, 10000] {
                amounts.push(knee.saturating_sub(d));
                amounts.push(knee.saturating_add(d));
            }
        }
        let key = anchor_lang::prelude::Pubkey::new_from_array(r.gen());
        let owner = spl_token_2022::ID;
        for x in amounts {
            // Anchor
            let mut lam = 1_000_000u64;
            let mut d = data.clone();
            let info = AccountInfo::new(&key, false, false, &mut lam, &mut d, &owner, false, 0);
            let enc = |ok: bool, a: u64, f: u64| json!({"ok": ok, "amount": nu(a as u128), "fee": nu(f as u128)});
            let (ea, ia) = match InterfaceAccount::<anchor_spl::token_interface::Mint>::try_from(&info) {
                Ok(m) => {
                    let e = std::panic::catch_unwind(std::panic::AssertUnwindSafe(|| calculate_transfer_fee_excluded_amount(&m, x)));
                    let i = std::panic::catch_unwind(std::panic::AssertUnwindSafe(|| calculate_transfer_fee_included_amount(&m, x)));
                    (match e { Ok(Ok(v)) => enc(true, v.amount, v.transfer_fee), _ => enc(false, 0, 0) }, match i { Ok(Ok(v)) => enc(true, v.amount, v.transfer_fee), _ => enc(false, 0, 0) })
                }
                Err(_) => (enc(false, 0, 0), enc(false, 0, 0)),
            };
            // Pinocchio: the mint in a loader-format input buffer
            let mut bank = crate::svm::Bank::default();
            bank.accts.insert(key, crate::svm::Acct { lamports: 1_000_000, data: data.clone(), owner, executable: false });
            let (ep, ip) = bank.with_pino_accounts(&[key], |accts| {
                let e = std::panic::catch_unwind(std::panic::AssertUnwindSafe(|| pino_calculate_transfer_fee_excluded_amount(&accts[0], x)));
                let i = std::panic::catch_unwind(std::panic::AssertUnwindSafe(|| pino_calculate_transfer_fee_included_amount(&accts[0], x)));
                (match e { Ok(Ok(v)) => enc(true, v.amount, v.transfer_fee), _ => enc(false, 0, 0) }, match i { Ok(Ok(v)) => enc(true, v.amount, v.transfer_fee), _ => enc(false, 0, 0) })
            });
            out.emit(json!({"k": "tfee", "bps": sel.2, "maxFee": nu(sel.1 as u128), "x": nu(x as u128), "exclA": ea, "inclA": ia, "exclP": ep, "inclP": ip, "extsBefore": before}), true, format!("tf:{}:{}", sel.2 == 10000, sel.2 == 0));
        }
    }
    out.w.flush().unwrap();
}

/// C20 (conversions): the SDK's tick/price conversions, amount deltas, next-price functions, token estimates
/// for liquidity and slippage helpers against the program's functions on the same inputs.
pub fn sdkconv(seed: u64, n: usize, stride: i32, out: &mut Out) {
    use orca_whirlpools_core as sdk;
    quiet_panics();
    let mut r = ChaCha8Rng::seed_from_u64(seed);
    let res64 = |r: std::thread::Result<Result<u64, &'static str>>| match r {
        Ok(Ok(v)) => json!({"ok": true, "v": nu(v as u128)}),
        Ok(Err(e)) => json!({"ok": false, "v": 0, "err": e}),
        Err(_) => json!({"ok": false, "v": 0, "err": "panic"}),
    };
    let res128 = |r: std::thread::Result<Result<u128, &'static str>>| match r {
        Ok(Ok(v)) => json!({"ok": true, "v": nu(v)}),
        Ok(Err(e)) => json!({"ok": false, "v": 0, "err": e}),
        Err(_) => json!({"ok": false, "v": 0, "err": "panic"}),
    };
    let prog64 = |r: std::thread::Result<Result<u64, whirlpool::errors::ErrorCode>>| match r {
        Ok(Ok(v)) => json!({"ok": true, "v": nu(v as u128)}),
        Ok(Err(e)) => json!({"ok": false, "v": 0, "err": format!("{e:?}")}),
        Err(_) => json!({"ok": false, "v": 0, "err": "panic"}),
    };
    let prog128 = |r: std::thread::Result<Result<u128, whirlpool::errors::ErrorCode>>| match r {
        Ok(Ok(v)) => json!({"ok": true, "v": nu(v)}),
        Ok(Err(e)) => json!({"ok": false, "v": 0, "err": format!("{e:?}")}),
        Err(_) => json!({"ok": false, "v": 0, "err": "panic"}),
    };
    // ---- tick <-> price over a strided sweep (stride 1 = every tick)
    let mut t = MIN_TICK + (seed % stride.max(1) as u64) as i32;
    let mut chunk: Vec<Value> = vec![];
    while t <= MAX_TICK {
        let pp = sqrt_price_from_tick_index(t);
        let ps: u128 = sdk::tick_index_to_sqrt_price(t).into();
        let mut row = vec![json!(t), json!(pp == ps)];
        for q in [pp.saturating_sub(1).max(MIN_SQRT_PRICE), pp, (pp + 1).min(MAX_SQRT_PRICE)] {
            let a = tick_index_from_sqrt_price(&q);
            let b: i32 = sdk::sqrt_price_to_tick_index(q.into());
            row.push(json!(a == b));
        }
        chunk.push(Value::Array(row));
        if chunk.len() == 512 {
            out.emit(json!({"k": "sdk_ticks", "rows": std::mem::take(&mut chunk)}), true, format!("st{}", t / 65536));
        }
        t += stride.max(1);
    }
    if !chunk.is_empty() {
        out.emit(json!({"k": "sdk_ticks", "rows": chunk}), true, "st".into());
    }
    // ---- price -> tick at sqrt-prices that are special for the log2 bit-walk (powers of two plus / minus every smaller power of
    // two, one unit either side): rows of three prices each, in the format of the sweep above
    {
        let mut ps: Vec<u128> = vec![];
        for k in 32u32..=96 {
            let base = 1u128 << k;
            for j in 0..k {
                let d = 1u128 << j;
                for dd in [d.saturating_sub(1), d, d + 1] {
                    ps.push(base - dd);
                    ps.push(base + dd);
                }
            }
            ps.push(base);
        }
        ps.retain(|p| *p >= MIN_SQRT_PRICE && *p <= MAX_SQRT_PRICE);
        ps.sort();
        ps.dedup();
        while ps.len() % 3 != 0 {
            ps.push(*ps.last().unwrap());
        }
        let mut chunk: Vec<Value> = vec![];
        for tri in ps.chunks(3) {
            let mut row = vec![json!(tick_index_from_sqrt_price(&tri[0])), json!(true)];
            for q in tri {
                let a = tick_index_from_sqrt_price(q);
                let b: i32 = sdk::sqrt_price_to_tick_index((*q).into());
                row.push(json!(a == b));
            }
            chunk.push(Value::Array(row));
            if chunk.len() == 512 {
                out.emit(json!({"k": "sdk_ticks", "rows": std::mem::take(&mut chunk)}), true, "stpow2".into());
            }
        }
        if !chunk.is_empty() {
            out.emit(json!({"k": "sdk_ticks", "rows": chunk}), true, "stpow2".into());
        }
    }
    // ---- amount deltas, next prices, token estimates, slippage
    for _ in 0..n {
        let (mut p0, mut p1) = (rand_price(&mut r), rand_price(&mut r));
        let mut liq = rand_liq(&mut r);
        // the corner where L * price (or L * price difference) reaches 2^192: prices near the maximum and
        // very large liquidity; the program reports an overflow there
        let hi = r.gen_bool(0.25);
        if hi {
            let lo_p = 1u128 << r.gen_range(80..96);
            p0 = lo_p + r.gen::<u128>() % (MAX_SQRT_PRICE - lo_p);
            p1 = lo_p + r.gen::<u128>() % (MAX_SQRT_PRICE - lo_p);
            liq = (1u128 << r.gen_range(90..128)) | (r.gen::<u128>() >> r.gen_range(1..64));
        }
        let up = r.gen_bool(0.5);
        let amt = rand_amount(&mut r);
        let exact_in = r.gen_bool(0.5);
        let pa = prog64(std::panic::catch_unwind(|| get_amount_delta_a(p0, p1, liq, up)));
        let sa = res64(std::panic::catch_unwind(|| sdk::try_get_amount_delta_a(p0.into(), p1.into(), liq.into(), up)));
        let pb = prog64(std::panic::catch_unwind(|| get_amount_delta_b(p0, p1, liq, up)));
        let sb = res64(std::panic::catch_unwind(|| sdk::try_get_amount_delta_b(p0.into(), p1.into(), liq.into(), up)));
        let pna = prog128(std::panic::catch_unwind(|| get_next_sqrt_price_from_a_round_up(p0, liq, amt, exact_in)));
        let sna = res128(std::panic::catch_unwind(|| sdk::try_get_next_sqrt_price_from_a(p0.into(), liq.into(), amt, exact_in).map(|x| x.into())));
        let pnb = prog128(std::panic::catch_unwind(|| get_next_sqrt_price_from_b_round_down(p0, liq, amt, exact_in)));
        let snb = res128(std::panic::catch_unwind(|| sdk::try_get_next_sqrt_price_from_b(p0.into(), liq.into(), amt, exact_in).map(|x| x.into())));
        out.emit(json!({"k": "sdk_conv", "p0": nu(p0), "p1": nu(p1), "L": nu(liq), "up": up, "amt": nu(amt as u128), "exactIn": exact_in,
                        "progA": pa, "sdkA": sa, "progB": pb, "sdkB": sb, "progNextA": pna, "sdkNextA": sna, "progNextB": pnb, "sdkNextB": snb}), true, format!("sc:{}:{}", hi, (128 - liq.leading_zeros()) / 16));
        // token estimates for liquidity vs the program's (Pinocchio) token deltas in a consistent pool state
        {
            use whirlpool::pinocchio::verif_export::ported::manager_liquidity_manager::pino_calculate_liquidity_token_deltas;
            use whirlpool::pinocchio::verif_export::state::whirlpool::MemoryMappedPosition;
            let sp_ = [1i32, 8, 64, 128][r.gen_range(0..4)];
            let (lo, upb) = if hi {
                let u = MAX_TICK / sp_ * sp_ - r.gen_range(0..50) * sp_;
                (u - r.gen_range(1..3000) * sp_, u)
            } else {
                let lo = r.gen_range(-3000..3000) * sp_;
                (lo, lo + r.gen_range(1..200) * sp_)
            };
            let (plo, pup) = (sqrt_price_from_tick_index(lo), sqrt_price_from_tick_index(upb));
            let price = match r.gen_range(0..6) {
                0 => plo,
                1 => pup,
                2 if upb < MAX_TICK => pup + 1 + r.gen::<u128>() % (sqrt_price_from_tick_index(upb + 1) - pup - 1).max(1),
                3 => plo.saturating_sub(r.gen_range(1..1000)),
                _ => plo + r.gen::<u128>() % (pup - plo),
            };
            let price = price.clamp(MIN_SQRT_PRICE, MAX_SQRT_PRICE);
            let tick = tick_index_from_sqrt_price(&price);
            let l = (if hi { liq } else { rand_liq(&mut r) }).min(i128::MAX as u128).max(1);
            let mut bytes = vec![0u8; 216];
            bytes[8 + 64 + 16..8 + 64 + 20].copy_from_slice(&lo.to_le_bytes());
            bytes[8 + 64 + 20..8 + 64 + 24].copy_from_slice(&upb.to_le_bytes());
            let mp: &MemoryMappedPosition = unsafe { &*(bytes.as_ptr() as *const MemoryMappedPosition) };
            let delta: i128 = if up { l as i128 } else { -(l as i128) };
            let pr = std::panic::catch_unwind(std::panic::AssertUnwindSafe(|| pino_calculate_liquidity_token_deltas(tick, price, mp, delta)));
            let sr = std::panic::catch_unwind(|| sdk::try_get_token_estimates_from_liquidity(l, price, lo, upb, up));
            let pj = match pr { Ok(Ok((a, b))) => json!({"ok": true, "a": nu(a as u128), "b": nu(b as u128)}), _ => json!({"ok": false, "a": 0, "b": 0}) };
            let sj = match sr { Ok(Ok((a, b))) => json!({"ok": true, "a": nu(a as u128), "b": nu(b as u128)}), _ => json!({"ok": false, "a": 0, "b": 0}) };
            out.emit(json!({"k": "sdk_est", "tick": tick, "price": nu(price), "lo": lo, "up": upb, "L": nu(l), "roundUp": up, "prog": pj, "sdk": sj}), true, format!("se:{hi}"));
        }
        // slippage helpers
        let bps: u16 = if r.gen_bool(0.3) { [0u16, 1, 9999, 10000][r.gen_range(0..4)] } else { r.gen_range(0..=10000) };
        let mn = res64(std::panic::catch_unwind(|| sdk::try_get_min_amount_with_slippage_tolerance(amt, bps)));
        let mx = res64(std::panic::catch_unwind(|| sdk::try_get_max_amount_with_slippage_tolerance(amt, bps)));
        out.emit(json!({"k": "sdk_slip", "est": nu(amt as u128), "bps": bps, "min": mn, "max": mx}), true, "sl".into());
    }
    out.w.flush().unwrap();
}
