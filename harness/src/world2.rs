//! Builders for the configuration / authority / adaptive-fee / token-badge instructions.
use crate::project::nu;
use crate::world::{pda, Ix, World};
use anchor_lang::{InstructionData, ToAccountMetas};
use serde_json::json;
use solana_program::pubkey::Pubkey;
use solana_program::{system_program, sysvar};
use whirlpool::accounts as wa;
use whirlpool::instruction as wi;

#[derive(Clone, Debug)]
pub struct AfConstants {
    pub filter_period: u16,
    pub decay_period: u16,
    pub reduction_factor: u16,
    pub adaptive_fee_control_factor: u32,
    pub max_volatility_accumulator: u32,
    pub tick_group_size: u16,
    pub major_swap_threshold_ticks: u16,
}
impl AfConstants {
    pub fn json(&self) -> serde_json::Value {
        json!({"filter": self.filter_period, "decay": self.decay_period, "reduction": self.reduction_factor, "factor": self.adaptive_fee_control_factor,
               "maxAcc": nu(self.max_volatility_accumulator as u128), "groupSize": self.tick_group_size, "majorTicks": self.major_swap_threshold_ticks})
    }
}

impl World {
    pub fn cfg_key(&self, cfg: &str) -> Pubkey {
        self.cfgs[cfg].key
    }
    pub fn fee_auth(&self, cfg: &str) -> Pubkey {
        self.users[&self.cfgs[cfg].fee_auth]
    }
    pub fn ext_key(&self, cfg: &str) -> Pubkey {
        pda(&[b"config_extension", self.cfgs[cfg].key.as_ref()])
    }

    pub fn ix_set_fee_rate(&self, pool: &str, rate: u16) -> Ix {
        let p = &self.pools[pool];
        Ix::new("set_fee_rate", "SetFeeRate", wa::SetFeeRate { whirlpools_config: self.cfg_key(&p.cfg), whirlpool: p.key, fee_authority: self.fee_auth(&p.cfg) }.to_account_metas(None), wi::SetFeeRate { fee_rate: rate }.data(), json!({"pool": pool, "cfg": p.cfg, "rate": rate}))
    }
    pub fn ix_set_protocol_fee_rate(&self, pool: &str, rate: u16) -> Ix {
        let p = &self.pools[pool];
        Ix::new("set_protocol_fee_rate", "SetProtocolFeeRate", wa::SetProtocolFeeRate { whirlpools_config: self.cfg_key(&p.cfg), whirlpool: p.key, fee_authority: self.fee_auth(&p.cfg) }.to_account_metas(None), wi::SetProtocolFeeRate { protocol_fee_rate: rate }.data(), json!({"pool": pool, "cfg": p.cfg, "rate": rate}))
    }
    pub fn ix_set_default_fee_rate(&self, cfg: &str, spacing: u16, rate: u16) -> Ix {
        Ix::new("set_default_fee_rate", "SetDefaultFeeRate", wa::SetDefaultFeeRate { whirlpools_config: self.cfg_key(cfg), fee_tier: self.fee_tier_key(cfg, spacing), fee_authority: self.fee_auth(cfg) }.to_account_metas(None), wi::SetDefaultFeeRate { default_fee_rate: rate }.data(), json!({"cfg": cfg, "spacing": spacing, "rate": rate}))
    }
    pub fn ix_set_default_protocol_fee_rate(&self, cfg: &str, rate: u16) -> Ix {
        Ix::new("set_default_protocol_fee_rate", "SetDefaultProtocolFeeRate", wa::SetDefaultProtocolFeeRate { whirlpools_config: self.cfg_key(cfg), fee_authority: self.fee_auth(cfg) }.to_account_metas(None), wi::SetDefaultProtocolFeeRate { default_protocol_fee_rate: rate }.data(), json!({"cfg": cfg, "rate": rate}))
    }
    pub fn ix_set_fee_authority(&self, cfg: &str, new_user: &str) -> Ix {
        Ix::new("set_fee_authority", "SetFeeAuthority", wa::SetFeeAuthority { whirlpools_config: self.cfg_key(cfg), fee_authority: self.fee_auth(cfg), new_fee_authority: self.users[new_user] }.to_account_metas(None), wi::SetFeeAuthority {}.data(), json!({"cfg": cfg, "new": new_user}))
    }
    pub fn ix_set_collect_protocol_fees_authority(&self, cfg: &str, new_user: &str) -> Ix {
        let c = &self.cfgs[cfg];
        Ix::new("set_collect_protocol_fees_authority", "SetCollectProtocolFeesAuthority", wa::SetCollectProtocolFeesAuthority { whirlpools_config: c.key, collect_protocol_fees_authority: self.users[&c.collect_auth], new_collect_protocol_fees_authority: self.users[new_user] }.to_account_metas(None), wi::SetCollectProtocolFeesAuthority {}.data(), json!({"cfg": cfg, "new": new_user}))
    }
    pub fn ix_set_reward_emissions_super_authority(&self, cfg: &str, new_user: &str) -> Ix {
        let c = &self.cfgs[cfg];
        Ix::new("set_reward_emissions_super_authority", "SetRewardEmissionsSuperAuthority", wa::SetRewardEmissionsSuperAuthority { whirlpools_config: c.key, reward_emissions_super_authority: self.users[&c.reward_super_auth], new_reward_emissions_super_authority: self.users[new_user] }.to_account_metas(None), wi::SetRewardEmissionsSuperAuthority {}.data(), json!({"cfg": cfg, "new": new_user}))
    }
    pub fn ix_set_reward_authority(&self, pool: &str, index: u8, new_user: &str) -> Ix {
        let p = &self.pools[pool];
        Ix::new("set_reward_authority", "SetRewardAuthority", wa::SetRewardAuthority { whirlpool: p.key, reward_authority: self.pool_reward_authority(pool), new_reward_authority: self.users[new_user] }.to_account_metas(None), wi::SetRewardAuthority { reward_index: index }.data(), json!({"pool": pool, "cfg": p.cfg, "index": index, "new": new_user}))
    }
    pub fn ix_set_reward_authority_by_super(&self, pool: &str, index: u8, new_user: &str) -> Ix {
        let p = &self.pools[pool];
        let c = &self.cfgs[&p.cfg];
        Ix::new("set_reward_authority_by_super_authority", "SetRewardAuthorityBySuperAuthority", wa::SetRewardAuthorityBySuperAuthority { whirlpools_config: c.key, whirlpool: p.key, reward_emissions_super_authority: self.users[&c.reward_super_auth], new_reward_authority: self.users[new_user] }.to_account_metas(None), wi::SetRewardAuthorityBySuperAuthority { reward_index: index }.data(), json!({"pool": pool, "cfg": p.cfg, "index": index, "new": new_user}))
    }
    pub fn ix_set_config_feature_flag(&self, cfg: &str, enabled: bool) -> Ix {
        Ix::new("set_config_feature_flag", "SetConfigFeatureFlag", wa::SetConfigFeatureFlag { whirlpools_config: self.cfg_key(cfg), authority: self.admin }.to_account_metas(None), wi::SetConfigFeatureFlag { feature_flag: whirlpool::state::ConfigFeatureFlag::TokenBadge(enabled) }.data(), json!({"cfg": cfg, "enabled": enabled}))
    }

    // ---------------- adaptive fee
    pub fn atier_key(&self, cfg: &str, index: u16) -> Pubkey {
        self.fee_tier_key(cfg, index)
    }
    #[allow(clippy::too_many_arguments)]
    pub fn ix_init_adaptive_fee_tier(&mut self, cfg: &str, index: u16, spacing: u16, init_pool_auth: Pubkey, delegated: Pubkey, base_rate: u16, c: &AfConstants) -> Ix {
        let k = self.atier_key(cfg, index);
        self.reg(k, &format!("atier:{cfg}:{index}"));
        Ix::new(
            "initialize_adaptive_fee_tier",
            "InitializeAdaptiveFeeTier",
            wa::InitializeAdaptiveFeeTier { whirlpools_config: self.cfg_key(cfg), adaptive_fee_tier: k, funder: self.funder, fee_authority: self.fee_auth(cfg), system_program: system_program::ID }.to_account_metas(None),
            wi::InitializeAdaptiveFeeTier { fee_tier_index: index, tick_spacing: spacing, initialize_pool_authority: init_pool_auth, delegated_fee_authority: delegated, default_base_fee_rate: base_rate, filter_period: c.filter_period, decay_period: c.decay_period, reduction_factor: c.reduction_factor, adaptive_fee_control_factor: c.adaptive_fee_control_factor, max_volatility_accumulator: c.max_volatility_accumulator, tick_group_size: c.tick_group_size, major_swap_threshold_ticks: c.major_swap_threshold_ticks }.data(),
            json!({"cfg": cfg, "index": index, "spacing": spacing, "baseRate": base_rate, "constants": c.json(), "initPoolAuth": self.id(&init_pool_auth), "delegated": self.id(&delegated)}),
        )
    }
    #[allow(clippy::too_many_arguments)]
    pub fn ix_init_pool_adaptive(&mut self, name: &str, cfg: &str, mint_a: &str, mint_b: &str, index: u16, spacing: u16, sqrt_price: u128, init_auth: Pubkey, trade_enable: Option<u64>) -> Ix {
        let (ma, mb) = (self.mints[mint_a].clone(), self.mints[mint_b].clone());
        let key = self.pool_key(cfg, &ma.key, &mb.key, index);
        self.reg(key, &format!("pool:{name}"));
        let va = self.new_key(&format!("vault:{name}:a"));
        let vb = self.new_key(&format!("vault:{name}:b"));
        let oracle = pda(&[b"oracle", key.as_ref()]);
        self.reg(oracle, &format!("oracle:{name}"));
        self.pools.insert(name.to_string(), crate::world::PoolInfo { name: name.into(), key, cfg: cfg.into(), mint_a: mint_a.into(), mint_b: mint_b.into(), vault_a: va, vault_b: vb, spacing, tier_index: index, oracle, adaptive: true, rewards: vec![], dynamic: false, v2: true });
        let mut m = wa::InitializePoolWithAdaptiveFee { whirlpools_config: self.cfg_key(cfg), token_mint_a: ma.key, token_mint_b: mb.key, token_badge_a: self.badge_key(cfg, &ma.key), token_badge_b: self.badge_key(cfg, &mb.key), funder: self.funder, initialize_pool_authority: init_auth, whirlpool: key, oracle, token_vault_a: va, token_vault_b: vb, adaptive_fee_tier: self.atier_key(cfg, index), token_program_a: ma.prog.id(), token_program_b: mb.prog.id(), system_program: system_program::ID, rent: sysvar::rent::ID }.to_account_metas(None);
        let _ = &mut m;
        Ix::new("initialize_pool_with_adaptive_fee", "InitializePoolWithAdaptiveFee", m, wi::InitializePoolWithAdaptiveFee { initial_sqrt_price: sqrt_price, trade_enable_timestamp: trade_enable }.data(),
                json!({"pool": name, "cfg": cfg, "index": index, "spacing": spacing, "sqrtPrice": nu(sqrt_price), "tradeEnable": trade_enable.map(|t| nu(t as u128)).unwrap_or(json!("none"))}))
    }
    pub fn ix_set_adaptive_fee_constants(&self, pool: &str, c: &AfConstants, which: u8) -> Ix {
        let p = &self.pools[pool];
        let o = |b: bool, v: u16| if b { Some(v) } else { None };
        let o32 = |b: bool, v: u32| if b { Some(v) } else { None };
        Ix::new(
            "set_adaptive_fee_constants",
            "SetAdaptiveFeeConstants",
            wa::SetAdaptiveFeeConstants { whirlpool: p.key, whirlpools_config: self.cfg_key(&p.cfg), oracle: p.oracle, fee_authority: self.fee_auth(&p.cfg) }.to_account_metas(None),
            wi::SetAdaptiveFeeConstants { filter_period: o(which & 1 != 0, c.filter_period), decay_period: o(which & 2 != 0, c.decay_period), reduction_factor: o(which & 4 != 0, c.reduction_factor), adaptive_fee_control_factor: o32(which & 8 != 0, c.adaptive_fee_control_factor), max_volatility_accumulator: o32(which & 16 != 0, c.max_volatility_accumulator), tick_group_size: o(which & 32 != 0, c.tick_group_size), major_swap_threshold_ticks: o(which & 64 != 0, c.major_swap_threshold_ticks) }.data(),
            json!({"pool": pool, "cfg": p.cfg, "constants": c.json(), "which": which}),
        )
    }
    pub fn ix_set_default_base_fee_rate(&self, cfg: &str, index: u16, rate: u16) -> Ix {
        Ix::new("set_default_base_fee_rate", "SetDefaultBaseFeeRate", wa::SetDefaultBaseFeeRate { whirlpools_config: self.cfg_key(cfg), adaptive_fee_tier: self.atier_key(cfg, index), fee_authority: self.fee_auth(cfg) }.to_account_metas(None), wi::SetDefaultBaseFeeRate { default_base_fee_rate: rate }.data(), json!({"cfg": cfg, "index": index, "rate": rate}))
    }
    pub fn ix_set_delegated_fee_authority(&self, cfg: &str, index: u16, new_user: &str) -> Ix {
        Ix::new("set_delegated_fee_authority", "SetDelegatedFeeAuthority", wa::SetDelegatedFeeAuthority { whirlpools_config: self.cfg_key(cfg), adaptive_fee_tier: self.atier_key(cfg, index), fee_authority: self.fee_auth(cfg), new_delegated_fee_authority: self.users[new_user] }.to_account_metas(None), wi::SetDelegatedFeeAuthority {}.data(), json!({"cfg": cfg, "index": index, "new": new_user}))
    }
    pub fn ix_set_initialize_pool_authority(&self, cfg: &str, index: u16, new_user: &str) -> Ix {
        Ix::new("set_initialize_pool_authority", "SetInitializePoolAuthority", wa::SetInitializePoolAuthority { whirlpools_config: self.cfg_key(cfg), adaptive_fee_tier: self.atier_key(cfg, index), fee_authority: self.fee_auth(cfg), new_initialize_pool_authority: self.users[new_user] }.to_account_metas(None), wi::SetInitializePoolAuthority {}.data(), json!({"cfg": cfg, "index": index, "new": new_user}))
    }
    pub fn ix_set_preset_adaptive_fee_constants(&self, cfg: &str, index: u16, c: &AfConstants) -> Ix {
        Ix::new(
            "set_preset_adaptive_fee_constants",
            "SetPresetAdaptiveFeeConstants",
            wa::SetPresetAdaptiveFeeConstants { whirlpools_config: self.cfg_key(cfg), adaptive_fee_tier: self.atier_key(cfg, index), fee_authority: self.fee_auth(cfg) }.to_account_metas(None),
            wi::SetPresetAdaptiveFeeConstants { filter_period: c.filter_period, decay_period: c.decay_period, reduction_factor: c.reduction_factor, adaptive_fee_control_factor: c.adaptive_fee_control_factor, max_volatility_accumulator: c.max_volatility_accumulator, tick_group_size: c.tick_group_size, major_swap_threshold_ticks: c.major_swap_threshold_ticks }.data(),
            json!({"cfg": cfg, "index": index, "constants": c.json()}),
        )
    }
    pub fn ix_set_fee_rate_by_delegated(&self, pool: &str, delegated: Pubkey, rate: u16) -> Ix {
        let p = &self.pools[pool];
        Ix::new("set_fee_rate_by_delegated_fee_authority", "SetFeeRateByDelegatedFeeAuthority", wa::SetFeeRateByDelegatedFeeAuthority { whirlpool: p.key, adaptive_fee_tier: self.atier_key(&p.cfg, p.tier_index), delegated_fee_authority: delegated }.to_account_metas(None), wi::SetFeeRateByDelegatedFeeAuthority { fee_rate: rate }.data(), json!({"pool": pool, "cfg": p.cfg, "rate": rate}))
    }

    /// delegated fee authority recorded in the adaptive fee tier of a pool
    pub fn pool_fee_tier_delegate(&self, pool: &str) -> Pubkey {
        let p = &self.pools[pool];
        let a = &self.bank.accts[&self.atier_key(&p.cfg, p.tier_index)];
        Pubkey::new_from_array(a.data[8 + 32 + 2 + 2 + 32..8 + 32 + 2 + 2 + 64].try_into().unwrap())
    }

    // ---------------- config extension and token badges
    pub fn ix_init_config_extension(&mut self, cfg: &str) -> Ix {
        let k = self.ext_key(cfg);
        self.reg(k, &format!("ext:{cfg}"));
        Ix::new("initialize_config_extension", "InitializeConfigExtension", wa::InitializeConfigExtension { config: self.cfg_key(cfg), config_extension: k, funder: self.funder, fee_authority: self.fee_auth(cfg), system_program: system_program::ID }.to_account_metas(None), wi::InitializeConfigExtension {}.data(), json!({"cfg": cfg}))
    }
    /// authorities recorded in the config extension: (config_extension_authority, token_badge_authority)
    pub fn ext_authorities(&self, cfg: &str) -> (Pubkey, Pubkey) {
        let a = &self.bank.accts[&self.ext_key(cfg)];
        (Pubkey::new_from_array(a.data[40..72].try_into().unwrap()), Pubkey::new_from_array(a.data[72..104].try_into().unwrap()))
    }
    pub fn ix_set_config_extension_authority(&self, cfg: &str, new_user: &str) -> Ix {
        Ix::new("set_config_extension_authority", "SetConfigExtensionAuthority", wa::SetConfigExtensionAuthority { whirlpools_config: self.cfg_key(cfg), whirlpools_config_extension: self.ext_key(cfg), config_extension_authority: self.ext_authorities(cfg).0, new_config_extension_authority: self.users[new_user] }.to_account_metas(None), wi::SetConfigExtensionAuthority {}.data(), json!({"cfg": cfg, "new": new_user}))
    }
    pub fn ix_set_token_badge_authority(&self, cfg: &str, new_user: &str) -> Ix {
        Ix::new("set_token_badge_authority", "SetTokenBadgeAuthority", wa::SetTokenBadgeAuthority { whirlpools_config: self.cfg_key(cfg), whirlpools_config_extension: self.ext_key(cfg), config_extension_authority: self.ext_authorities(cfg).0, new_token_badge_authority: self.users[new_user] }.to_account_metas(None), wi::SetTokenBadgeAuthority {}.data(), json!({"cfg": cfg, "new": new_user}))
    }
    pub fn ix_init_token_badge(&mut self, cfg: &str, mint: &str) -> Ix {
        let mk = self.mints[mint].key;
        let b = self.badge_key(cfg, &mk);
        self.reg(b, &format!("badge:{cfg}:{mint}"));
        Ix::new("initialize_token_badge", "InitializeTokenBadge", wa::InitializeTokenBadge { whirlpools_config: self.cfg_key(cfg), whirlpools_config_extension: self.ext_key(cfg), token_badge_authority: self.ext_authorities(cfg).1, token_mint: mk, token_badge: b, funder: self.funder, system_program: system_program::ID }.to_account_metas(None), wi::InitializeTokenBadge {}.data(), json!({"cfg": cfg, "mint": mint}))
    }
    pub fn ix_delete_token_badge(&self, cfg: &str, mint: &str) -> Ix {
        let mk = self.mints[mint].key;
        Ix::new("delete_token_badge", "DeleteTokenBadge", wa::DeleteTokenBadge { whirlpools_config: self.cfg_key(cfg), whirlpools_config_extension: self.ext_key(cfg), token_badge_authority: self.ext_authorities(cfg).1, token_mint: mk, token_badge: self.badge_key(cfg, &mk), receiver: self.funder }.to_account_metas(None), wi::DeleteTokenBadge {}.data(), json!({"cfg": cfg, "mint": mint}))
    }
    pub fn ix_set_token_badge_attribute(&self, cfg: &str, mint: &str, v: bool) -> Ix {
        let mk = self.mints[mint].key;
        Ix::new("set_token_badge_attribute", "SetTokenBadgeAttribute", wa::SetTokenBadgeAttribute { whirlpools_config: self.cfg_key(cfg), whirlpools_config_extension: self.ext_key(cfg), token_badge_authority: self.ext_authorities(cfg).1, token_mint: mk, token_badge: self.badge_key(cfg, &mk) }.to_account_metas(None), wi::SetTokenBadgeAttribute { attribute: whirlpool::state::TokenBadgeAttribute::RequireNonTransferablePosition(v) }.data(), json!({"cfg": cfg, "mint": mint, "value": v}))
    }
}
