pub mod svm;
pub mod project;
pub mod world;
pub mod world2;
pub mod rec;
pub mod hist;
pub mod fndrv;
pub mod tadrv;
pub mod matrix;
pub mod twohop;
pub mod pack;
pub mod life;
pub mod mints;
pub mod sdk;
pub mod wider;
pub mod slots {
    include!(concat!(env!("OUT_DIR"), "/slots.rs"));
    pub fn of(name: &str) -> &'static [&'static str] {
        SLOTS.iter().find(|s| s.0 == name).map(|s| s.1).unwrap_or_else(|| panic!("no slots for {name}"))
    }
}
