use std::collections::BTreeMap;
use wpharness::*;

fn args() -> (String, BTreeMap<String, String>) {
    let a: Vec<String> = std::env::args().collect();
    let cmd = a.get(1).cloned().unwrap_or_default();
    let mut m = BTreeMap::new();
    let mut i = 2;
    while i < a.len() {
        if let Some(k) = a[i].strip_prefix("--") {
            let v = a.get(i + 1).cloned().unwrap_or_default();
            m.insert(k.to_string(), v);
            i += 2;
        } else {
            i += 1;
        }
    }
    (cmd, m)
}

fn main() {
    // A valid instruction of a driver's own preparation that the program refuses is data, not a crash: the trace
    // written so far is kept and a `setup_failed` event appended, which the trace specification rejects.
    let (_, m0) = args();
    let out0 = m0.get("out").cloned();
    let stats0 = m0.get("stats").cloned();
    let r = std::panic::catch_unwind(run_main);
    if let Err(p) = r {
        let msg = p.downcast_ref::<String>().cloned().or_else(|| p.downcast_ref::<&str>().map(|s| s.to_string())).unwrap_or_default();
        if let (true, Some(out)) = (msg.starts_with("setup step "), out0) {
            use std::io::Write;
            let mut f = std::fs::OpenOptions::new().append(true).create(true).open(&out).unwrap();
            let what: String = msg.chars().take(300).collect();
            writeln!(f, "{}", serde_json::json!({"k": "setup_failed", "what": what})).unwrap();
            if let Some(s) = stats0 {
                if !std::path::Path::new(&s).exists() {
                    std::fs::write(s, "{\"stats\": {\"resets\": 0, \"events\": 0, \"by_ix\": {}}, \"samples\": []}").unwrap();
                }
            }
            eprintln!("setup failed: {what}");
            std::process::exit(0);
        }
        std::process::exit(101);
    }
}

fn run_main() {
    let (cmd, m) = args();
    let get = |k: &str, d: &str| m.get(k).cloned().unwrap_or(d.to_string());
    let seed: u64 = get("seed", "1").parse().unwrap();
    let out = get("out", "/dev/stdout");
    match cmd.as_str() {
        "slots" => {
            for (n, f) in slots::SLOTS {
                println!("{n}: {f:?}");
            }
        }
        "hist" => {
            let cfg = hist::HistCfg {
                seed,
                histories: get("histories", "2").parse().unwrap(),
                steps: get("steps", "50").parse().unwrap(),
                tokens: get("tokens", "spl"),
                rewards: get("rewards", "0") == "1",
                drain: get("drain", "1") == "1",
                crosscheck_every: get("crosscheck", "0").parse().unwrap(),
                dual: get("dual", "0") == "1",
                adaptive: get("adaptive", "0") == "1",
                sdk: get("sdk", "0") == "1",
            };
            let mut rec = rec::Recorder::to_file(&out);
            hist::run(&cfg, &mut rec);
            eprintln!("{}", serde_json::to_string(&rec.stats_json()).unwrap());
            if let Some(p) = m.get("stats") {
                std::fs::write(p, serde_json::to_string_pretty(&serde_json::json!({"stats": rec.stats_json(), "samples": rec.samples})).unwrap()).unwrap();
            }
        }
        "matrix" => {
            let cfg = matrix::MatrixCfg { seed, auth: get("auth", "1") == "1", subst: get("subst", "1") == "1", max_subst_per_slot: get("maxsubst", "6").parse().unwrap() };
            let mut rec = rec::Recorder::to_file(&out);
            matrix::run(&cfg, &mut rec);
            eprintln!("{}", serde_json::to_string(&rec.stats_json()).unwrap());
            if let Some(p) = m.get("stats") {
                std::fs::write(p, serde_json::to_string_pretty(&serde_json::json!({"stats": rec.stats_json(), "samples": rec.samples})).unwrap()).unwrap();
            }
        }
        "twohop" => {
            let mut rec = rec::Recorder::to_file(&out);
            twohop::run(seed, get("worlds", "2").parse().unwrap(), get("attempts", "50").parse().unwrap(), &mut rec);
            eprintln!("{}", serde_json::to_string(&rec.stats_json()).unwrap());
            if let Some(p) = m.get("stats") {
                std::fs::write(p, serde_json::to_string_pretty(&serde_json::json!({"stats": rec.stats_json(), "samples": rec.samples})).unwrap()).unwrap();
            }
        }
        "pack" => {
            let mut rec = rec::Recorder::to_file(&out);
            let part = get("part", "0/1");
            let (pi, pn) = part.split_once('/').unwrap();
            pack::run(seed, &get("layouts", ""), get("sample", "50").parse().unwrap(), (pi.parse().unwrap(), pn.parse().unwrap()), &mut rec);
            eprintln!("{}", serde_json::to_string(&rec.stats_json()).unwrap());
            if let Some(p) = m.get("stats") {
                std::fs::write(p, serde_json::to_string_pretty(&serde_json::json!({"stats": rec.stats_json(), "samples": rec.samples})).unwrap()).unwrap();
            }
        }
        "life" => {
            let mut rec = rec::Recorder::to_file(&out);
            let sweep: usize = get("sweep", "0").parse().unwrap();
            if sweep > 0 {
                life::bundle_sweep(seed, sweep, &mut rec);
            } else {
                life::run(seed, &get("paths", ""), get("sample", "50").parse().unwrap(), &mut rec);
            }
            eprintln!("{}", serde_json::to_string(&rec.stats_json()).unwrap());
            if let Some(p) = m.get("stats") {
                std::fs::write(p, serde_json::to_string_pretty(&serde_json::json!({"stats": rec.stats_json(), "samples": rec.samples})).unwrap()).unwrap();
            }
        }
        "wider" => {
            let mut rec = rec::Recorder::to_file(&out);
            wider::run(seed, get("worlds", "2").parse().unwrap(), &mut rec);
            eprintln!("{}", serde_json::to_string(&rec.stats_json()).unwrap());
            if let Some(p) = m.get("stats") {
                std::fs::write(p, serde_json::to_string_pretty(&serde_json::json!({"stats": rec.stats_json(), "samples": rec.samples})).unwrap()).unwrap();
            }
        }
        "mints" => {
            let mut rec = rec::Recorder::to_file(&out);
            mints::run(seed, &get("cases", ""), get("sample", "300").parse().unwrap(), &mut rec);
            eprintln!("{}", serde_json::to_string(&rec.stats_json()).unwrap());
            if let Some(p) = m.get("stats") {
                std::fs::write(p, serde_json::to_string_pretty(&serde_json::json!({"stats": rec.stats_json(), "samples": rec.samples})).unwrap()).unwrap();
            }
        }
        "ta" => {
            let mut o = fndrv::Out::new(&out);
            tadrv::run(seed, m.get("paths").map(|s| s.as_str()), get("sample", "100").parse().unwrap(), get("random", "50").parse().unwrap(), &mut o);
            eprintln!("{}", serde_json::to_string(&o.stats()["stats"]).unwrap());
            if let Some(p) = m.get("stats") {
                std::fs::write(p, serde_json::to_string_pretty(&o.stats()).unwrap()).unwrap();
            }
        }
        "fn" => {
            let what = get("what", "steps");
            let n: usize = get("n", "1000").parse().unwrap();
            let mut o = fndrv::Out::new(&out);
            match what.as_str() {
                "steps" => fndrv::steps(seed, n, &mut o),
                "deltas" => fndrv::deltas(seed, n, &mut o),
                "views" => fndrv::views(seed, n, &mut o),
                "tfee" => fndrv::tfee(seed, n, &mut o),
                "sdkconv" => fndrv::sdkconv(seed, n, get("stride", "64").parse().unwrap(), &mut o),
                "ticks" => fndrv::ticks(seed, get("stride", "64").parse().unwrap(), n, get("lo", "-443636").parse().unwrap(), get("hi", "443636").parse().unwrap(), &mut o),
                _ => panic!("unknown fn driver {what}"),
            }
            eprintln!("{}", serde_json::to_string(&o.stats()["stats"]).unwrap());
            if let Some(p) = m.get("stats") {
                std::fs::write(p, serde_json::to_string_pretty(&o.stats()).unwrap()).unwrap();
            }
        }
        _ => {
            eprintln!("usage: wpharness <slots|hist> [--seed N] [--out FILE] ...");
            std::process::exit(2);
        }
    }
}
