//! `twohop` driver (C17): three pools sharing mints pairwise; every two-hop attempt is also executed,
//! on a copy of the bank, as its two single swaps with the matching intermediate amount, and the
//! resulting banks are compared account by account.
use crate::hist::{MAX_SQRT_PRICE, MIN_SQRT_PRICE};
use crate::project::nu;
use crate::rec::{price_of, Recorder};
use crate::world::{PosKind, TokProg, World};
use rand::Rng;
use serde_json::{json, Value};

fn log_uniform(w: &mut World, lo: u32, hi: u32) -> u128 {
    let b = w.rng.gen_range(lo..=hi);
    (1u128 << b) + (w.rng.gen::<u128>() % (1u128 << b))
}
fn pick<T: Clone>(w: &mut World, v: &[T]) -> T {
    let i = w.rng.gen_range(0..v.len());
    v[i].clone()
}

/// Other packagings of the same tick arrays for `two_hop_swap_v2` (C10: the outcome must not depend on how the arrays are supplied):
/// per leg either the canonical three static slots, or the first array three times in the static slots with the other two in the
/// leg's supplemental slice, or the static slots in reverse order.  `variant` = 3 x (leg two's choice) + (leg one's choice).
#[allow(clippy::too_many_arguments)]
fn repackage_two_hop(ix: &mut crate::world::Ix, variant: u8, amount: u64, threshold: u64, exact_in: bool, d1: bool, d2: bool, l1: u128, l2: u128) {
    use anchor_lang::InstructionData;
    use solana_program::instruction::AccountMeta;
    use whirlpool::util::{AccountsType, RemainingAccountsInfo, RemainingAccountsSlice};
    if ix.name != "two_hop_swap_v2" || variant == 0 {
        return;
    }
    let mut slices = vec![];
    for (leg, choice, ty) in [("one", variant % 3, AccountsType::SupplementalTickArraysOne), ("two", variant / 3 % 3, AccountsType::SupplementalTickArraysTwo)] {
        let t: Vec<_> = (0..3).map(|i| ix.key(&format!("tick_array_{leg}_{i}"))).collect();
        match choice {
            1 => {
                for i in 0..3 {
                    ix.set_key(&format!("tick_array_{leg}_{i}"), t[0]);
                }
                for (i, k) in [t[1], t[2]].iter().enumerate() {
                    ix.metas.push(AccountMeta::new(*k, false));
                    ix.extra.push(format!("supplemental_{leg}_{i}"));
                }
                slices.push(RemainingAccountsSlice { accounts_type: ty, length: 2 });
            }
            2 => {
                for i in 0..3 {
                    ix.set_key(&format!("tick_array_{leg}_{i}"), t[2 - i]);
                }
            }
            _ => {}
        }
    }
    let info = if slices.is_empty() { None } else { Some(RemainingAccountsInfo { slices }) };
    ix.data = whirlpool::instruction::TwoHopSwapV2 { amount, other_amount_threshold: threshold, amount_specified_is_input: exact_in, a_to_b_one: d1, a_to_b_two: d2, sqrt_price_limit_one: l1, sqrt_price_limit_two: l2, remaining_accounts_info: info }.data();
    ix.args["packaging"] = json!(variant);
}

thread_local! {
    /// set by `build`: trading on the adaptive-fee pool P2 is not enabled yet
    static TRADE_PENDING: std::cell::Cell<bool> = std::cell::Cell::new(false);
}

pub fn build(seed: u64, t22: bool, rec: &mut Recorder) -> World {
    build_with(seed, t22, false, rec)
}

/// `force_pending`: P2 is an adaptive-fee pool whose trading is enabled only later
pub fn build_with(seed: u64, t22: bool, force_pending: bool, rec: &mut Recorder) -> World {
    build_full(seed, t22, force_pending, false, rec)
}

/// `fee_on_a`: mint A (Token-2022) charges a transfer fee; routes with A as the intermediate token are then left out
/// (a two-hop moves the intermediate token vault to vault, two single swaps move it through the trader: with a fee on
/// it the two are not comparable), routes with A as input or output keep their meaning.
pub fn build_full(seed: u64, t22: bool, force_pending: bool, fee_on_a: bool, rec: &mut Recorder) -> World {
    build_fee(seed, t22, force_pending, if fee_on_a { Some("A") } else { None }, rec)
}

/// `fee_mint`: the Token-2022 mint (A or R) that charges a transfer fee
pub fn build_fee(seed: u64, t22: bool, force_pending: bool, fee_mint: Option<&str>, rec: &mut Recorder) -> World {
    let fee_on_a = fee_mint.is_some();
    TRADE_PENDING.with(|c| c.set(false));
    let mut w = World::new(seed);
    w.init_config("C1", 300);
    for u in ["U1", "U2"] {
        w.add_user(u);
    }
    let keys = w.sorted_keys(3);
    for (i, n) in ["A", "B", "R"].iter().enumerate() {
        let fee = if fee_on_a && t22 && Some(*n) == fee_mint { Some(pick(&mut w, &[(100u16, 1_000_000_000u64), (250, u64::MAX), (30, 5_000)])) } else { None };
        w.add_mint_keyed(n, keys[i], if t22 { TokProg::T22 } else { TokProg::Spl }, fee);
    }
    for u in ["U1", "U2", "collectAuthC1"] {
        for m in ["A", "B", "R"] {
            w.user_token(u, m, if u.starts_with('U') { 1u64 << 58 } else { 0 });
        }
    }
    let rate = pick(&mut w, &[0u16, 300, 3000, 10000]);
    for sp in [64u16, 8] {
        let ix = w.ix_init_fee_tier("C1", sp, rate);
        w.must_ix(&ix);
    }
    // an adaptive tier for one of the pools (sometimes)
    let adaptive = w.rng.gen_bool(0.4) || force_pending;
    if adaptive {
        let c = crate::world2::AfConstants { filter_period: 10, decay_period: 120, reduction_factor: 5000, adaptive_fee_control_factor: pick(&mut w, &[0u32, 4000, 50000]), max_volatility_accumulator: 350_000, tick_group_size: pick(&mut w, &[8u16, 64]), major_swap_threshold_ticks: 64 };
        let f = w.funder;
        let ix = w.ix_init_adaptive_fee_tier("C1", 1024, 64, f, f, rate, &c);
        w.must_ix(&ix);
    }
    for (name, a, b, sp) in [("P1", "A", "B", 64u16), ("P2", "B", "R", 64), ("P3", "A", "R", 8)] {
        let t0 = w.rng.gen_range(-3000..3000);
        let p = price_of(t0) + w.rng.gen_range(0..1000);
        if adaptive && name == "P2" {
            let f = w.funder;
            // trading on the adaptive-fee pool is sometimes enabled only later: until then every swap through it fails,
            // as a single swap and as either leg of a two-hop
            let te = if w.rng.gen_bool(0.5) || force_pending { Some((w.now + pick(&mut w, &[30i64, 600, 5000])) as u64) } else { None };
            TRADE_PENDING.with(|c| c.set(te.is_some()));
            let ix = w.ix_init_pool_adaptive(name, "C1", a, b, 1024, sp, p, f, te);
            w.must_ix(&ix);
        } else {
            let ix = if t22 { w.ix_init_pool_v2(name, "C1", a, b, sp, p) } else { w.ix_init_pool(name, "C1", a, b, sp, p) };
            w.must_ix(&ix);
        }
        let span = sp as i32 * 88;
        let base = t0.div_euclid(span) * span;
        for k in -3..=3 {
            let dynamic = w.rng.gen_bool(0.5);
            let ix = w.ix_init_tick_array(name, base + k * span, dynamic);
            w.must_ix(&ix);
        }
        let v2 = t22 || adaptive && name == "P2";
        for _ in 0..w.rng.gen_range(2..5) {
            let c = t0.div_euclid(sp as i32) * sp as i32;
            let lo = c - w.rng.gen_range(1..120) * sp as i32;
            let up = c + w.rng.gen_range(1..120) * sp as i32;
            let lo = lo.max(base - 3 * span);
            let up = up.min(base + 4 * span - sp as i32);
            let kind = if v2 { PosKind::TokenExt } else { PosKind::Plain };
            let (ix, info) = w.ix_open_position(name, "U1", lo, up, kind);
            w.must_ix(&ix);
            let n = info.name.clone();
            w.positions.insert(n.clone(), info);
            let liq = log_uniform(&mut w, 20, 44);
            let ix = w.ix_increase(&n, "U1", liq, u64::MAX, u64::MAX, v2);
            w.must_ix(&ix);
        }
    }
    rec.reset(&mut w, json!({"twohop": true, "seed": nu(seed as u128), "t22": t22}));
    w
}

fn tok_delta(before: &World, after: &World, user: &str, mint: &str) -> i128 {
    after.token_amount(&after.utok(user, mint)) as i128 - before.token_amount(&before.utok(user, mint)) as i128
}

/// (pool name, a_to_b) -> (input mint, output mint)
fn mints_of(w: &World, pool: &str, a_to_b: bool) -> (String, String) {
    let p = &w.pools[pool];
    if a_to_b { (p.mint_a.clone(), p.mint_b.clone()) } else { (p.mint_b.clone(), p.mint_a.clone()) }
}

fn random_limit(w: &mut World, pool: &str, a_to_b: bool) -> u128 {
    let sp = w.pool_sqrt_price(pool);
    let t = w.pool_tick(pool);
    if w.rng.gen_bool(0.04) {
        // a limit of this leg that is not on its trade side (the two-hop must be refused): the price itself, one unit off,
        // or a point between the price and the edge of the current tick
        let (edge_lo, edge_hi) = (price_of(t), price_of(t + 1));
        let between = |w: &mut World, a: u128, b: u128| if b > a + 1 { a + 1 + w.rng.gen::<u128>() % (b - a - 1) } else { a };
        let cand = if a_to_b { [sp, sp + 1, between(w, sp, edge_hi)] } else { [sp, sp.saturating_sub(1), between(w, edge_lo, sp)] };
        let c = cand[w.rng.gen_range(0..cand.len())];
        if c >= MIN_SQRT_PRICE && c <= MAX_SQRT_PRICE && ((a_to_b && c >= sp) || (!a_to_b && c <= sp)) {
            return c;
        }
    }
    if w.rng.gen_bool(0.7) {
        return 0;
    }
    let d = w.rng.gen_range(1..300);
    let p = if a_to_b { price_of(t - d) } else { price_of(t + d) };
    if (a_to_b && p < sp && p >= MIN_SQRT_PRICE) || (!a_to_b && p > sp && p <= MAX_SQRT_PRICE) { p } else { 0 }
}

pub fn run(seed: u64, worlds: usize, attempts: usize, rec: &mut Recorder) {
    for wi in 0..worlds {
        let t22 = wi % 2 == 1;
        // every fourth world charges a transfer fee: on mint A (token A of its pools) or on mint R (token B of its pools)
        let fee_on_a = wi % 4 == 1;
        let fee_mint = if !fee_on_a { None } else if (wi as u64 / 4 + seed) % 2 == 0 { Some("A") } else { Some("R") };
        let mut w = build_fee(seed.wrapping_mul(7919).wrapping_add(wi as u64), t22, wi % 4 == 0, fee_mint, rec);
        // routes whose intermediate token is the fee mint are left out (see build_full)
        let fee_routes: [usize; 4] = if fee_mint == Some("R") { [0, 1, 2, 3] } else { [0, 1, 4, 5] };
        let legs: Vec<(&str, &str, bool, bool)> = vec![
            ("P1", "P2", true, true),   // A->B->R
            ("P2", "P1", false, false), // R->B->A
            ("P1", "P3", false, true),  // B->A->R
            ("P3", "P1", false, true),  // R->A->B
            ("P3", "P2", true, false),  // A->R->B
            ("P2", "P3", true, false),  // B->R->A
            ("P1", "P1", true, false),  // same pool (invalid)
            ("P1", "P2", true, false),  // intermediate mismatch (invalid)
            ("P3", "P2", false, true),  // intermediate mismatch (invalid)
        ];
        let pending = TRADE_PENDING.with(|c| c.get());
        for att in 0..attempts {
            // while trading on P2 is not enabled yet: no clock steps, routes through P2 (as first and as second leg)
            let hold = pending && att < 16;
            if att % 40 == 7 {
                same_pool_at_array_edge(&mut w, t22, rec);
            }
            // move prices around with ordinary swaps and let time pass
            if w.rng.gen_bool(0.5) {
                let pool = pick(&mut w, &["P1", "P2", "P3"]);
                let a_to_b = w.rng.gen_bool(0.5);
                let amt = log_uniform(&mut w, 5, 40) as u64;
                let v2 = t22 || w.rng.gen_bool(0.5);
                let ix = w.ix_swap(pool, "U2", amt, 0, 0, true, a_to_b, v2);
                rec.exec(&mut w, &ix, false, json!("move"));
            }
            if !hold && w.rng.gen_bool(0.3) {
                let dt = pick(&mut w, &[1i64, 11, 130, 4000]);
                rec.tick_clock(&mut w, dt);
            }
            let (p1, p2, d1, d2) = if hold { legs[[0usize, 1, 4, 5][att % 4]] } else if fee_on_a { legs[fee_routes[w.rng.gen_range(0..4)]] } else if w.rng.gen_bool(0.9) { legs[w.rng.gen_range(0..6)] } else { legs[w.rng.gen_range(6..legs.len())] };
            // now and then the second pool's price is first moved next to the edge of its tick array in the direction of its leg, so
            // that the leg crosses into the next array
            if !hold && att % 7 == 3 && p1 != p2 {
                let sp = w.pools[p2].spacing as i32;
                let span = sp * 88;
                let tcur = w.pool_tick(p2);
                let s0 = tcur.div_euclid(span) * span;
                let target = if d2 { s0 + w.rng.gen_range(0..3) * sp + 1 } else { s0 + span - 1 - w.rng.gen_range(0..3) * sp };
                let (cur, lim) = (w.pool_sqrt_price(p2), price_of(target));
                if lim != cur && lim > MIN_SQRT_PRICE && lim < MAX_SQRT_PRICE {
                    let pv2 = w.pools[p2].v2 || t22;
                    let ix = w.ix_swap(p2, "U2", 1u64 << 56, 0, lim, true, lim < cur, pv2);
                    rec.exec(&mut w, &ix, false, json!("edge"));
                }
            }
            let exact_in = w.rng.gen_bool(0.6);
            let amount = log_uniform(&mut w, 3, 42) as u64;
            let (l1, l2) = (random_limit(&mut w, p1, d1), random_limit(&mut w, p2, d2));
            let v2 = t22 || if hold { att % 8 < 4 } else { w.rng.gen_bool(0.5) };
            let vac = if exact_in { 0 } else { u64::MAX };
            // (1) the two-hop with a vacuous threshold on a copy -> realised amounts
            // (a third of the v2 two-hops are submitted in another packaging of their tick arrays; the single swaps they are compared
            // with always use the canonical one)
            // (the canonical packaging is run first, on a copy: a two-hop one of whose legs leaves the tick array it starts in is
            // nearly always repackaged - that is where the supplemental arrays matter)
            let leaves_array = |before: &World, after: &World, pool: &str| {
                let span = before.pools[pool].spacing as i32 * 88;
                before.pool_tick(pool).div_euclid(span) != after.pool_tick(pool).div_euclid(span)
            };
            let (canon, canon_ok) = if v2 {
                let mut c = w.clone();
                let ix_c = c.ix_two_hop(p1, p2, "U1", amount, vac, exact_in, d1, d2, l1, l2, v2);
                let ok = c.exec_raw(&ix_c.instruction()).ok();
                (Some(c), ok)
            } else {
                (None, false)
            };
            let crosses = canon_ok && canon.as_ref().map(|c| leaves_array(&w, c, p1) || leaves_array(&w, c, p2)).unwrap_or(false);
            let packaging: u8 = if v2 && w.rng.gen_bool(if crosses { 0.9 } else { 0.25 }) { w.rng.gen_range(1..9) } else { 0 };
            let mut t = w.clone();
            let mut ix_t = t.ix_two_hop(p1, p2, "U1", amount, vac, exact_in, d1, d2, l1, l2, v2);
            repackage_two_hop(&mut ix_t, packaging, amount, vac, exact_in, d1, d2, l1, l2);
            let ex_t = t.exec_raw(&ix_t.instruction());
            let (m_in, m_mid) = mints_of(&w, p1, d1);
            let (_, m_out) = mints_of(&w, p2, d2);
            // (1b) a repackaged two-hop is also compared with the canonical packaging of the same two-hop (C10: same outcome,
            // success or refusal, however the arrays are supplied)
            let pack_info = if packaging != 0 {
                let summary = |before: &World, after: &World, ok: bool| {
                    if !ok {
                        return json!({"ok": false, "in": 0, "out": 0, "price1": 0, "price2": 0});
                    }
                    json!({"ok": true, "in": nu((-tok_delta(before, after, "U1", &m_in)).max(0) as u128), "out": nu(tok_delta(before, after, "U1", &m_out).max(0) as u128),
                           "price1": nu(after.pool_sqrt_price(p1)), "price2": nu(after.pool_sqrt_price(p2))})
                };
                let c = canon.as_ref().unwrap();
                let same_bank = canon_ok == ex_t.ok() && (!canon_ok || c.bank.accts == t.bank.accts);
                let mut res = summary(&w, &t, ex_t.ok());
                res["sameAccounts"] = json!(same_bank);
                let mut rf = summary(&w, c, canon_ok);
                rf["sameAccounts"] = json!(true);
                json!({"present": true, "label": format!("twohop_v2_packaging_{packaging}"), "expectSame": true, "truncated": false, "foreign": false, "result": res, "ref": rf})
            } else {
                json!({"present": false})
            };
            // (2) the two single swaps on another copy
            let mut s = w.clone();
            let sv2 = |_w: &World, _pool: &str| t22 || v2;
            let (s1, s2);
            if exact_in {
                let b0 = s.clone();
                let ix1 = s.ix_swap(p1, "U1", amount, 0, l1, true, d1, sv2(&s, p1));
                let e1 = s.exec_raw(&ix1.instruction());
                let (in1, out1) = (-tok_delta(&b0, &s, "U1", &m_in), tok_delta(&b0, &s, "U1", &m_mid));
                s1 = json!({"ok": e1.ok(), "in": nu(in1.max(0) as u128), "out": nu(out1.max(0) as u128)});
                if e1.ok() && out1 > 0 && p1 != p2 {
                    let b1 = s.clone();
                    let ix2 = s.ix_swap(p2, "U1", out1 as u64, 0, l2, true, d2, sv2(&s, p2));
                    let e2 = s.exec_raw(&ix2.instruction());
                    let (m2in, m2out) = mints_of(&w, p2, d2);
                    s2 = json!({"ok": e2.ok(), "in": nu((-tok_delta(&b1, &s, "U1", &m2in)).max(0) as u128), "out": nu(tok_delta(&b1, &s, "U1", &m2out).max(0) as u128)});
                } else {
                    s2 = json!({"ok": false, "in": 0, "out": 0});
                }
            } else {
                let b0 = s.clone();
                let ix2 = s.ix_swap(p2, "U1", amount, u64::MAX, l2, false, d2, sv2(&s, p2));
                let e2 = s.exec_raw(&ix2.instruction());
                let (m2in, m2out) = mints_of(&w, p2, d2);
                let (in2, out2) = (-tok_delta(&b0, &s, "U1", &m2in), tok_delta(&b0, &s, "U1", &m2out));
                s2 = json!({"ok": e2.ok(), "in": nu(in2.max(0) as u128), "out": nu(out2.max(0) as u128)});
                if e2.ok() && in2 > 0 && p1 != p2 {
                    let b1 = s.clone();
                    let ix1 = s.ix_swap(p1, "U1", in2 as u64, u64::MAX, l1, false, d1, sv2(&s, p1));
                    let e1 = s.exec_raw(&ix1.instruction());
                    s1 = json!({"ok": e1.ok(), "in": nu((-tok_delta(&b1, &s, "U1", &m_in)).max(0) as u128), "out": nu(tok_delta(&b1, &s, "U1", &m_mid).max(0) as u128)});
                } else {
                    s1 = json!({"ok": false, "in": 0, "out": 0});
                }
            }
            // (3) compare the banks (every account)
            let mut differing: Vec<String> = vec![];
            if ex_t.ok() {
                let keys: std::collections::BTreeSet<_> = t.bank.accts.keys().chain(s.bank.accts.keys()).cloned().collect();
                for k in keys {
                    if t.bank.accts.get(&k) != s.bank.accts.get(&k) {
                        differing.push(w.id(&k));
                    }
                }
            }
            // realised amounts of the two-hop and the threshold to try
            let realised = if exact_in { tok_delta(&w, &t, "U1", &m_out).max(0) as u64 } else { (-tok_delta(&w, &t, "U1", &m_in)).max(0) as u64 };
            let threshold = if !ex_t.ok() {
                vac
            } else {
                match w.rng.gen_range(0..4) {
                    0 => vac,
                    1 => realised,
                    2 => realised.saturating_add(1),
                    _ => realised.saturating_sub(1),
                }
            };
            let info = json!({"present": true, "s1": s1, "s2": s2, "vacuousOk": ex_t.ok(), "differing": differing, "realised": nu(realised as u128),
                               "acctIn": format!("utok:U1:{m_in}"), "acctMid": format!("utok:U1:{m_mid}"), "acctOut": format!("utok:U1:{m_out}"), "distinct": m_in != m_out && m_in != m_mid && m_mid != m_out});
            // (4) the real, recorded two-hop
            let mut ix = w.ix_two_hop(p1, p2, "U1", amount, threshold, exact_in, d1, d2, l1, l2, v2);
            repackage_two_hop(&mut ix, packaging, amount, threshold, exact_in, d1, d2, l1, l2);
            let must = ex_t.ok() && (threshold == vac || threshold == realised || (exact_in && threshold < realised) || (!exact_in && threshold > realised));
            rec.exec(&mut w, &ix, must, json!({"twohop": info, "pack": pack_info}));
        }
    }
    rec.flush();
}

/// Both slots of a two-hop naming the SAME pool (A->B->A and B->A->B), in the one state where the two legs need
/// disjoint tick arrays: the current tick in the last slot of its array (the b->a leg then starts from the next
/// array), and from the first slot.  A two-hop needs two distinct pools, whatever the arrays.
fn same_pool_at_array_edge(w: &mut World, t22: bool, rec: &mut Recorder) {
    for pool in ["P1", "P3"] {
        let sp = w.pools[pool].spacing as i32;
        let span = sp * 88;
        let v2p = t22;
        for last in [true, false] {
            let t = w.pool_tick(pool);
            let s0 = t.div_euclid(span) * span;
            let target = if last { s0 + 87 * sp + w.rng.gen_range(1..sp.max(2)) } else { s0 + w.rng.gen_range(0..sp.max(1)) };
            let cur = w.pool_sqrt_price(pool);
            let lim = price_of(target) + 1;
            if lim != cur {
                let ix = w.ix_swap(pool, "U2", 1u64 << 56, 0, lim, true, lim < cur, v2p);
                rec.exec(w, &ix, false, json!("edge"));
            }
            for (d1, d2) in [(true, false), (false, true)] {
                for v2 in [true, false] {
                    if !v2 && v2p {
                        continue;
                    }
                    for exact_in in [true, false] {
                        let amount = pick(w, &[1000u64, 100_000, 10_000_000]);
                        let ix = w.ix_two_hop(pool, pool, "U1", amount, if exact_in { 0 } else { u64::MAX }, exact_in, d1, d2, 0, 0, v2);
                        let mut c = w.clone();
                        rec.exec(&mut c, &ix, false, json!({"probe": true, "twohop_same_pool": true, "last_slot": last}));
                    }
                }
            }
        }
    }
}

#[allow(dead_code)]
fn unused(_: Value) {}
