//! Trace recorder: executes instructions on a World and writes one ndjson event per instruction
//! (complete diff of the abstract projection, decoded program events, swap-step hook records).
use crate::project::{self, nu};
use crate::svm::Exec;
use crate::world::{decode_events, Ix, World};
use serde_json::{json, Map, Value};
use std::collections::{BTreeMap, BTreeSet};
use std::io::Write;

pub struct Recorder {
    pub out: Box<dyn Write>,
    pub events: usize,
    pub resets: usize,
    /// per instruction name: (ok, failed)
    pub stats: BTreeMap<String, (usize, usize)>,
    pub panics: usize,
    pub routing_checks: usize,
    pub routing_mismatch: Vec<String>,
    pub crosscheck_every: usize,
    /// C12: run every Pinocchio-served instruction also through the Anchor handler on a copy and compare
    pub dual: bool,
    pub dual_runs: usize,
    /// C20: quote every single swap with the Rust core SDK on the pre-state
    pub sdk: bool,
    known_prices: BTreeSet<i32>,
    pub samples: Vec<Value>,
}

/// C14: for adaptive-fee swaps, the tick groups every step's price segment spans (computed with the
/// program's own tick math, whose correctness is C09's business) and the end-of-swap facts the
/// specification needs.
fn annotate_adaptive(sw: &mut Value) {
    let num = |v: &Value| -> u128 { v.as_str().map(|s| s.parse().unwrap()).unwrap_or_else(|| v.as_u64().unwrap_or(0) as u128) };
    let tick_of = |p: u128| whirlpool::math::tick_index_from_sqrt_price(&p);
    let mut gs: i64 = 0;
    let mut major_ticks: i64 = 0;
    if let Some(steps) = sw["steps"].as_array_mut() {
        for st in steps.iter_mut() {
            if st["fm"]["kind"] != "adaptive" {
                continue;
            }
            gs = st["fm"]["group_size"].as_i64().unwrap();
            major_ticks = st["fm"]["major_ticks"].as_i64().unwrap();
            let (p0, p1) = (num(&st["p0"]), num(&st["p1"]));
            let (lo, hi) = (p0.min(p1), p0.max(p1));
            let (tlo, thi) = (tick_of(lo) as i64, tick_of(hi) as i64);
            let gmin = tlo.div_euclid(gs);
            let hi_exact = price_of(thi as i32) == hi;
            let gmax = if hi_exact && thi.rem_euclid(gs) == 0 { thi.div_euclid(gs) - 1 } else { thi.div_euclid(gs) };
            st["gmin"] = json!(gmin);
            st["gmax"] = json!(gmax.max(gmin));
            st["moved"] = json!(p0 != p1);
        }
    }
    if gs > 0 {
        let end = if sw["done"] == true { num(&sw["result"]["sqrt_price"]) } else { 0 };
        if end > 0 {
            let t = tick_of(end) as i64;
            sw["endGroup"] = json!(t.div_euclid(gs));
            sw["endOnBoundary"] = json!(price_of(t as i32) == end && t.rem_euclid(gs) == 0);
        }
        sw["majorFactor"] = nu(price_of(major_ticks as i32));
        sw["startGroup"] = json!(sw["pool"]["tick"].as_i64().unwrap().div_euclid(gs));
    }
}

pub fn price_of(t: i32) -> u128 {
    whirlpool::math::sqrt_price_from_tick_index(t)
}

/// the Pinocchio-served instructions whose Anchor handler still exists (by-token-amounts and reposition are Pinocchio-only)
pub const PINO_NAMES: &[&str] = &["increase_liquidity", "decrease_liquidity", "increase_liquidity_v2", "decrease_liquidity_v2"];

impl Recorder {
    fn dual_run(&mut self, w: &World, ix: &Ix) -> (crate::svm::Bank, Exec) {
        let mut bank = w.bank.clone();
        crate::svm::set_clock(w.now);
        crate::svm::set_anchor_only(true);
        let ex = bank.process(&ix.instruction());
        crate::svm::set_anchor_only(false);
        self.dual_runs += 1;
        (bank, ex)
    }
    pub fn new(out: Box<dyn Write>) -> Recorder {
        Recorder { out, events: 0, resets: 0, stats: BTreeMap::new(), panics: 0, routing_checks: 0, routing_mismatch: vec![], crosscheck_every: 0, dual: false, dual_runs: 0, sdk: false, known_prices: BTreeSet::new(), samples: vec![] }
    }
    pub fn to_file(path: &str) -> Recorder {
        let f = std::fs::File::create(path).unwrap_or_else(|e| panic!("cannot create {path}: {e}"));
        Recorder::new(Box::new(std::io::BufWriter::new(f)))
    }

    fn write(&mut self, v: &Value) {
        // TLC's JSON module has no null: encode it as the string "null"
        fn denull(v: &mut Value) {
            match v {
                Value::Null => *v = Value::String("null".into()),
                Value::Array(a) => a.iter_mut().for_each(denull),
                Value::Object(o) => o.values_mut().for_each(denull),
                _ => {}
            }
        }
        let mut v = v.clone();
        denull(&mut v);
        let v = &v;
        serde_json::to_writer(&mut self.out, v).unwrap();
        self.out.write_all(b"\n").unwrap();
        self.events += 1;
        if self.samples.len() < 3 && v["k"] == "ix" && v["ok"] == true {
            self.samples.push(v.clone());
        }
    }
    pub fn flush(&mut self) {
        self.out.flush().unwrap();
    }

    fn new_prices(&mut self, ticks: impl Iterator<Item = i32>) -> Value {
        let mut m = Map::new();
        for t in ticks {
            if (-443636..=443636).contains(&t) && self.known_prices.insert(t) {
                m.insert(t.to_string(), nu(price_of(t)));
            }
        }
        Value::Object(m)
    }

    fn ticks_of_state(proj: &Value) -> Vec<i32> {
        let mut v = vec![];
        for (_, p) in proj["pos"].as_object().unwrap() {
            v.push(p["lo"].as_i64().unwrap() as i32);
            v.push(p["up"].as_i64().unwrap() as i32);
        }
        for (_, t) in proj["tick"].as_object().unwrap() {
            v.push(t["idx"].as_i64().unwrap() as i32);
        }
        for (_, p) in proj["pool"].as_object().unwrap() {
            let t = p["tick"].as_i64().unwrap() as i32;
            v.push(t);
            v.push(t + 1);
        }
        v
    }

    /// Start a new scenario: the full projection becomes the spec state.
    pub fn reset(&mut self, w: &mut World, info: Value) {
        let proj = w.project();
        self.known_prices.clear();
        let prices = self.new_prices(Self::ticks_of_state(&proj).into_iter());
        let ev = json!({"k": "reset", "state": proj, "now": nu(w.now as u128), "prices": prices, "info": info});
        w.last_proj = proj;
        self.resets += 1;
        self.write(&ev);
    }

    /// Execute and record one instruction.
    pub fn exec(&mut self, w: &mut World, ix: &Ix, must: bool, tag: Value) -> Exec {
        let inst = ix.instruction();
        let mut routing = "none".to_string();
        if self.crosscheck_every > 0 && self.events % self.crosscheck_every == 0 && ix.program == crate::world::WP {
            crate::svm::set_clock(w.now);
            self.routing_checks += 1;
            routing = "same".to_string();
            if let Some(m) = w.bank.routing_crosscheck(&inst) {
                self.routing_mismatch.push(format!("{}: {}", ix.name, m));
                routing = m;
            }
        }
        let dual = if self.dual && PINO_NAMES.contains(&ix.name.as_str()) { Some(self.dual_run(w, ix)) } else { None };
        const LIQ_QUOTED: [&str; 4] = ["increase_liquidity", "increase_liquidity_v2", "decrease_liquidity", "decrease_liquidity_v2"];
        let pre_bank = if self.sdk && (ix.name == "swap" || ix.name == "swap_v2" || LIQ_QUOTED.contains(&ix.name.as_str())) { Some(w.bank.clone()) } else { None };
        // the SDK's fee / reward quotes for the position an update_fees_and_rewards is about, on the pre-state (wider specification W6)
        let sdk_owed = if self.sdk && ix.name == "update_fees_and_rewards" {
            crate::sdk::quote_owed(&w.bank, &ix.key("position"), &ix.key("tick_array_lower"), &ix.key("tick_array_upper"), w.now as u64)
        } else {
            json!({"present": false})
        };
        // the SDK's liquidity quote of the same liquidity amount on the pre-state
        let sdk_liq = match (&pre_bank, ix.args.get("pos").and_then(|v| v.as_str())) {
            (Some(b), Some(pos)) if LIQ_QUOTED.contains(&ix.name.as_str()) && w.positions.contains_key(pos) && w.pos_range(pos).is_some() => {
                let x = &w.positions[pos];
                let p = &w.pools[&x.pool];
                let (_, lo, up) = w.pos_range(pos).unwrap();
                let num = |v: &Value| -> u128 { v.as_str().map(|s| s.parse().unwrap()).unwrap_or_else(|| v.as_u64().unwrap_or(0) as u128) };
                let bps = [0u16, 1, 50, 100, 1000, 10000][self.events % 6];
                crate::sdk::quote_liquidity(b, &p.key, &w.mints[&p.mint_a].key, &w.mints[&p.mint_b].key, lo, up, num(&ix.args["liq"]), ix.name.starts_with("increase"), crate::svm::epoch(), bps)
            }
            _ => json!({"present": false}),
        };
        let ex = w.exec_raw(&inst);
        let dual = dual.map(|(bank_a, ex_a)| {
            // compare the Anchor run (on a copy) with the Pinocchio run (the real one)
            let mut differing: Vec<String> = vec![];
            let keys: std::collections::BTreeSet<_> = bank_a.accts.keys().chain(w.bank.accts.keys()).cloned().collect();
            for k in keys {
                if bank_a.accts.get(&k) != w.bank.accts.get(&k) {
                    differing.push(w.id(&k));
                }
            }
            let ev_a = decode_events(w, &ex_a);
            let ev_p = decode_events(w, &ex);
            json!({"present": true, "codeAnchor": nu(ex_a.code as u128), "codePino": nu(ex.code as u128), "panicAnchor": ex_a.panic.is_some(), "panicPino": ex.panic.is_some(),
                   "differing": differing, "sameEvents": ev_a == ev_p, "eventsAnchor": ev_a.len()})
        });
        let proj = w.project();
        let d = project::diff(&w.last_proj, &proj);
        let swaps: Vec<Value> = ex
            .hook_events
            .iter()
            .filter_map(|h| serde_json::from_str::<Value>(h).ok())
            .filter(|v| v["k"] == "swap")
            .map(|mut v| {
                let done = v["result"].is_object();
                v["done"] = Value::Bool(done);
                if v["adaptive"] == true {
                    annotate_adaptive(&mut v);
                }
                v
            })
            .collect();
        let evs = decode_events(w, &ex);
        let sdk = match (&pre_bank, swaps.first()) {
            (Some(b), Some(sw)) if swaps.len() == 1 => {
                let num = |v: &Value| -> u128 { v.as_str().map(|s| s.parse().unwrap()).unwrap_or_else(|| v.as_u64().unwrap_or(0) as u128) };
                let names = ix.slot_names();
                let supplied: Vec<solana_program::pubkey::Pubkey> = names.iter().enumerate().filter(|(_, n)| n.starts_with("tick_array_") || n.starts_with("supplemental_")).map(|(i, _)| ix.metas[i].pubkey).collect();
                crate::sdk::quote(b, &ix.key("whirlpool"), &ix.key("oracle"), &supplied, num(&sw["amount"]) as u64, num(&sw["limit"]), sw["exact_in"] == true, sw["a_to_b"] == true, num(&sw["ts"]) as u64)
            }
            _ => json!({"present": false}),
        };
        // the SDK's user-facing quote, for single swaps submitted without an explicit price limit
        // (also when the program refused the instruction before it reached the swap computation - no hook record -: the
        // quote is a function of the instruction's arguments and the pre-state only)
        let sdk_user = match (&pre_bank, swaps.first()) {
            (Some(b), _) if swaps.len() <= 1 && (ix.name == "swap" || ix.name == "swap_v2") && ix.args["limit"] == 0 && w.pools.contains_key(ix.args["pool"].as_str().unwrap_or("")) => {
                let num = |v: &Value| -> u128 { v.as_str().map(|s| s.parse().unwrap()).unwrap_or_else(|| v.as_u64().unwrap_or(0) as u128) };
                let names = ix.slot_names();
                let supplied: Vec<solana_program::pubkey::Pubkey> = names.iter().enumerate().filter(|(_, n)| n.starts_with("tick_array_") || n.starts_with("supplemental_")).map(|(i, _)| ix.metas[i].pubkey).collect();
                let p = &w.pools[ix.args["pool"].as_str().unwrap_or("")];
                let (ma, mb) = (w.mints[&p.mint_a].key, w.mints[&p.mint_b].key);
                let bps = [0u16, 1, 50, 100, 1000, 10000][self.events % 6];
                crate::sdk::quote_user_level(b, &ix.key("whirlpool"), &ix.key("oracle"), &supplied, &ma, &mb, num(&ix.args["amount"]) as u64, ix.args["exactIn"] == true, ix.args["aToB"] == true, w.now as u64, crate::svm::epoch(), bps)
            }
            _ => json!({"present": false}),
        };
        // ticks whose prices the spec may need
        let mut ticks = Self::ticks_of_state(&proj);
        for key in ["lo", "up", "newLo", "newUp"] {
            if let Some(t) = ix.args.get(key).and_then(|v| v.as_i64()) {
                ticks.push(t as i32);
            }
        }
        let prices = self.new_prices(ticks.into_iter());
        let st = self.stats.entry(ix.name.clone()).or_insert((0, 0));
        if ex.ok() {
            st.0 += 1
        } else {
            st.1 += 1
        }
        if ex.panic.is_some() {
            self.panics += 1;
        }
        let probe = tag.get("probe").and_then(|v| v.as_bool()).unwrap_or(false);
        let pre_diff = tag.get("preDiff").filter(|v| v.is_object()).cloned();
        let empty = project::diff(&json!({"pool":{},"tick":{},"ta":{},"pos":{},"tok":{},"mint":{},"oracle":{},"cfg":{},"tier":{},"atier":{},"badge":{},"ext":{},"bundle":{},"lock":{},"other":{}}),
                                  &json!({"pool":{},"tick":{},"ta":{},"pos":{},"tok":{},"mint":{},"oracle":{},"cfg":{},"tier":{},"atier":{},"badge":{},"ext":{},"bundle":{},"lock":{},"other":{}}));
        let mut tag = tag;
        let twohop = tag.get("twohop").cloned().unwrap_or(json!({"present": false}));
        let pack = tag.get("pack").cloned().unwrap_or(json!({"present": false}));
        if let Some(o) = tag.as_object_mut() {
            o.remove("preDiff");
            o.remove("twohop");
            o.remove("pack");
        }
        let ev = json!({
            "twohop": twohop, "pack": pack, "probe": probe, "hasPreDiff": pre_diff.is_some(), "preDiff": pre_diff.unwrap_or(empty),
            "k": "ix", "name": ix.name, "args": ix.args, "slots": w.slots_json(ix),
            "ok": ex.ok(), "err": nu(ex.code as u128), "panic": ex.panic.is_some(), "rtv": ex.runtime_violation.is_some(),
            "must": must, "now": nu(w.now as u128), "epoch": nu(crate::svm::epoch() as u128), "tag": tag,
            "logs": if ex.ok() { vec![] } else { ex.logs.iter().rev().take(4).rev().cloned().collect::<Vec<_>>() },
            "swaps": swaps, "events": evs, "diff": d, "prices": prices,
            "dual": dual.unwrap_or(json!({"present": false})), "routing": routing, "sdk": sdk, "sdkUser": sdk_user, "sdkLiq": sdk_liq, "sdkOwed": sdk_owed,
        });
        w.last_proj = proj;
        self.write(&ev);
        ex
    }

    /// A clock step (no instruction).
    pub fn tick_clock(&mut self, w: &mut World, dt: i64) {
        w.set_now(w.now + dt);
        let ev = json!({"k": "clock", "now": nu(w.now as u128)});
        self.write(&ev);
    }

    pub fn stats_json(&self) -> Value {
        let mut m = Map::new();
        for (k, (a, b)) in self.stats.iter() {
            m.insert(k.clone(), json!({"ok": a, "fail": b}));
        }
        json!({"events": self.events, "resets": self.resets, "by_ix": m, "panics": self.panics,
               "routing_checks": self.routing_checks, "routing_mismatch": self.routing_mismatch, "dual_runs": self.dual_runs})
    }
}
