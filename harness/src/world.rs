//! World: a bank plus a registry of abstract identities, and builders for every instruction.
use crate::project::{self, Ids};
use crate::svm::{self, Acct, Bank, Exec};
use anchor_lang::{InstructionData, ToAccountMetas};
use rand::{Rng, SeedableRng};
use rand_chacha::ChaCha8Rng;
use serde_json::{json, Value};
use solana_program::instruction::{AccountMeta, Instruction};
use solana_program::program_pack::Pack;
use solana_program::pubkey::Pubkey;
use solana_program::{system_program, sysvar};
use std::collections::BTreeMap;
use whirlpool::accounts as wa;
use whirlpool::instruction as wi;

pub const WP: Pubkey = whirlpool::ID;

#[derive(Clone, Debug)]
pub struct Ix {
    pub name: String,
    /// name of the #[derive(Accounts)] struct (for slot names)
    pub accts: &'static str,
    pub metas: Vec<AccountMeta>,
    /// names of metas beyond the struct's slots (remaining accounts)
    pub extra: Vec<String>,
    pub data: Vec<u8>,
    pub args: Value,
    pub program: Pubkey,
}

impl Ix {
    pub fn new(name: &str, accts: &'static str, metas: Vec<AccountMeta>, data: Vec<u8>, args: Value) -> Ix {
        Ix { name: name.to_string(), accts, metas, extra: vec![], data, args, program: WP }
    }
    pub fn slot_names(&self) -> Vec<String> {
        let mut v: Vec<String> = if self.accts.is_empty() { vec![] } else { crate::slots::of(self.accts).iter().map(|s| s.to_string()).collect() };
        v.extend(self.extra.iter().cloned());
        while v.len() < self.metas.len() {
            v.push(format!("extra_{}", v.len()));
        }
        v
    }
    pub fn slot_index(&self, slot: &str) -> usize {
        self.slot_names().iter().position(|s| s == slot).unwrap_or_else(|| panic!("no slot {slot} in {}", self.name))
    }
    pub fn set_key(&mut self, slot: &str, k: Pubkey) {
        let i = self.slot_index(slot);
        self.metas[i].pubkey = k;
    }
    pub fn key(&self, slot: &str) -> Pubkey {
        self.metas[self.slot_index(slot)].pubkey
    }
    pub fn set_signer(&mut self, slot: &str, s: bool) {
        let i = self.slot_index(slot);
        self.metas[i].is_signer = s;
    }
    pub fn instruction(&self) -> Instruction {
        Instruction { program_id: self.program, accounts: self.metas.clone(), data: self.data.clone() }
    }
}

#[derive(Clone, Debug, PartialEq, Eq)]
pub enum TokProg {
    Spl,
    T22,
}
impl TokProg {
    pub fn id(&self) -> Pubkey {
        match self {
            TokProg::Spl => spl_token::ID,
            TokProg::T22 => spl_token_2022::ID,
        }
    }
}

#[derive(Clone, Debug)]
pub struct MintInfo {
    pub key: Pubkey,
    pub prog: TokProg,
    pub auth: Pubkey,
    pub fee_bps: u16,
    pub fee_max: u64,
}

#[derive(Clone, Debug)]
pub struct PoolInfo {
    pub name: String,
    pub key: Pubkey,
    pub cfg: String,
    pub mint_a: String,
    pub mint_b: String,
    pub vault_a: Pubkey,
    pub vault_b: Pubkey,
    pub spacing: u16,
    pub tier_index: u16,
    pub oracle: Pubkey,
    pub adaptive: bool,
    /// reward index -> (mint name, vault)
    pub rewards: Vec<(String, Pubkey)>,
    /// prefer dynamic tick arrays when creating new ones
    pub dynamic: bool,
    pub v2: bool,
}

#[derive(Clone, Debug, PartialEq, Eq)]
pub enum PosKind {
    Plain,
    Meta,
    TokenExt,
    Bundled,
}

thread_local! {
    /// see `add_mint_keyed`: extra Token-2022 mint extension initialised before / after the transfer-fee config
    pub static MINT_EXTRA: std::cell::Cell<u8> = std::cell::Cell::new(0);
}

#[derive(Clone, Debug)]
pub struct PosInfo {
    pub name: String,
    pub key: Pubkey,
    pub mint: Pubkey,
    pub token_account: Pubkey,
    pub owner: String,
    pub pool: String,
    pub kind: PosKind,
    pub bundle: Option<(String, u16)>,
}

#[derive(Clone, Debug)]
pub struct BundleInfo {
    pub name: String,
    pub key: Pubkey,
    pub mint: Pubkey,
    pub token_account: Pubkey,
    pub owner: String,
}

#[derive(Clone, Debug)]
pub struct CfgInfo {
    pub key: Pubkey,
    pub fee_auth: String,
    pub collect_auth: String,
    pub reward_super_auth: String,
    pub ext: Option<Pubkey>,
}

#[derive(Clone)]
pub struct World {
    pub bank: Bank,
    pub ids: Ids,
    pub rng: ChaCha8Rng,
    pub admin: Pubkey,
    pub funder: Pubkey,
    pub cfgs: BTreeMap<String, CfgInfo>,
    pub mints: BTreeMap<String, MintInfo>,
    pub pools: BTreeMap<String, PoolInfo>,
    pub users: BTreeMap<String, Pubkey>,
    /// (user, mint name) -> token account
    pub utok: BTreeMap<(String, String), Pubkey>,
    pub positions: BTreeMap<String, PosInfo>,
    pub bundles: BTreeMap<String, BundleInfo>,
    pub now: i64,
    pub last_proj: Value,
    pub npos: usize,
}

pub fn pda(seeds: &[&[u8]]) -> Pubkey {
    Pubkey::find_program_address(seeds, &WP).0
}

impl World {
    pub fn new(seed: u64) -> World {
        svm::init();
        let mut w = World {
            bank: Bank::default(),
            ids: BTreeMap::new(),
            rng: ChaCha8Rng::seed_from_u64(seed),
            admin: whirlpool::auth::admin::ADMINS[0],
            funder: Pubkey::default(),
            cfgs: BTreeMap::new(),
            mints: BTreeMap::new(),
            pools: BTreeMap::new(),
            users: BTreeMap::new(),
            utok: BTreeMap::new(),
            positions: BTreeMap::new(),
            bundles: BTreeMap::new(),
            now: 1_700_000_000,
            last_proj: Value::Null,
            npos: 0,
        };
        w.bank.install_builtin_accounts();
        for (k, n) in [
            (system_program::ID, "prog:system"),
            (spl_token::ID, "prog:token"),
            (spl_token_2022::ID, "prog:token2022"),
            (spl_associated_token_account::ID, "prog:ata"),
            (spl_memo::ID, "prog:memo"),
            (WP, "prog:whirlpool"),
            (svm::metadata_program_id(), "prog:metadata"),
            (sysvar::rent::ID, "sysvar:rent"),
            (whirlpool::constants::nft::whirlpool_nft_update_auth::ID, "nftUpdateAuth"),
        ] {
            w.ids.insert(k, n.to_string());
        }
        let admin = w.admin;
        w.bank.fund(admin, 1_000_000_000_000_000);
        w.ids.insert(admin, "admin".into());
        w.funder = w.new_key("funder");
        let f = w.funder;
        w.bank.fund(f, 1_000_000_000_000_000);
        svm::set_clock(w.now);
        w
    }

    pub fn new_key(&mut self, id: &str) -> Pubkey {
        let mut b = [0u8; 32];
        self.rng.fill(&mut b);
        let k = Pubkey::new_from_array(b);
        self.ids.insert(k, id.to_string());
        k
    }
    pub fn reg(&mut self, k: Pubkey, id: &str) -> Pubkey {
        // an identity, once given, is never renamed
        self.ids.entry(k).or_insert_with(|| id.to_string());
        k
    }
    pub fn id(&self, k: &Pubkey) -> String {
        project::idof(&self.ids, k)
    }
    pub fn set_now(&mut self, t: i64) {
        self.now = t;
        svm::set_clock(t);
    }

    pub fn add_user(&mut self, name: &str) -> Pubkey {
        let k = self.new_key(&format!("user:{name}"));
        self.bank.fund(k, 1_000_000_000_000);
        self.users.insert(name.to_string(), k);
        k
    }

    // ------------------------------------------------------------------ raw execution
    pub fn exec_raw(&mut self, ix: &Instruction) -> Exec {
        svm::set_clock(self.now);
        self.bank.process(ix)
    }
    pub fn must(&mut self, what: &str, ix: &Instruction) {
        let r = self.exec_raw(ix);
        if !r.ok() {
            panic!("setup step {what} failed: code={} panic={:?} logs={:#?}", r.code, r.panic, r.logs);
        }
    }
    pub fn must_ix(&mut self, ix: &Ix) {
        let i = ix.instruction();
        let n = ix.name.clone();
        self.must(&n, &i);
    }

    // ------------------------------------------------------------------ mints and token accounts
    /// SPL mints are written directly; token-2022 mints are created through the real processor.
    pub fn add_mint_keyed(&mut self, name: &str, key: Pubkey, prog: TokProg, fee_bps: Option<(u16, u64)>) {
        let auth = self.admin;
        self.reg(key, &format!("mint:{name}"));
        match prog {
            TokProg::Spl => {
                let m = spl_token::state::Mint { mint_authority: Some(auth).into(), supply: 0, decimals: 6, is_initialized: true, freeze_authority: None.into() };
                let mut d = vec![0u8; spl_token::state::Mint::LEN];
                m.pack_into_slice(&mut d);
                self.bank.accts.insert(key, Acct { lamports: svm::rent_min(d.len()), data: d, owner: spl_token::ID, executable: false });
            }
            TokProg::T22 => {
                use spl_token_2022::extension::ExtensionType;
                let t22 = spl_token_2022::ID;
                // MINT_EXTRA: further extensions initialised BEFORE (1, 3) or AFTER (2, 4) the transfer-fee config - Token-2022
                // stores TLV entries in initialisation order: 1 metadata pointer, 2 interest-bearing, 3 / 4 transfer hook
                // without a program (needs a token badge)
                let extra = MINT_EXTRA.with(|c| c.get());
                let extra_ty = match extra { 1 => Some(ExtensionType::MetadataPointer), 2 => Some(ExtensionType::InterestBearingConfig), 3 | 4 => Some(ExtensionType::TransferHook), _ => None };
                let mut exts: Vec<ExtensionType> = if fee_bps.is_some() { vec![ExtensionType::TransferFeeConfig] } else { vec![] };
                exts.extend(extra_ty);
                let space = ExtensionType::try_calculate_account_len::<spl_token_2022::state::Mint>(&exts).unwrap();
                self.bank.accts.insert(key, Acct { lamports: svm::rent_min(space), data: vec![0u8; space], owner: t22, executable: false });
                let init_extra = |w: &mut World| match extra {
                    1 => w.must("t22 init metadata pointer", &spl_token_2022::extension::metadata_pointer::instruction::initialize(&t22, &key, Some(auth), None).unwrap()),
                    2 => w.must("t22 init interest bearing", &spl_token_2022::extension::interest_bearing_mint::instruction::initialize(&t22, &key, Some(auth), 5).unwrap()),
                    3 | 4 => w.must("t22 init transfer hook", &spl_token_2022::extension::transfer_hook::instruction::initialize(&t22, &key, Some(auth), None).unwrap()),
                    _ => {}
                };
                if extra == 1 || extra == 3 {
                    init_extra(self);
                }
                if let Some((bps, max)) = fee_bps {
                    let ix = spl_token_2022::extension::transfer_fee::instruction::initialize_transfer_fee_config(&t22, &key, Some(&auth), Some(&auth), bps, max).unwrap();
                    self.must("t22 init transfer fee", &ix);
                }
                if extra == 2 || extra == 4 {
                    init_extra(self);
                }
                let ix = spl_token_2022::instruction::initialize_mint2(&t22, &key, &auth, None, 6).unwrap();
                self.must("t22 init mint2", &ix);
            }
        }
        let (bps, max) = fee_bps.unwrap_or((0, 0));
        self.mints.insert(name.to_string(), MintInfo { key, prog, auth, fee_bps: bps, fee_max: max });
    }

    /// Generates n mint keys in increasing order so that names sort like keys (pool mint order).
    pub fn sorted_keys(&mut self, n: usize) -> Vec<Pubkey> {
        let mut v: Vec<Pubkey> = (0..n)
            .map(|_| {
                let mut b = [0u8; 32];
                self.rng.fill(&mut b);
                Pubkey::new_from_array(b)
            })
            .collect();
        v.sort();
        v
    }

    pub fn add_token_account(&mut self, id: &str, mint: &str, owner: Pubkey, amount: u64) -> Pubkey {
        let k = self.new_key(id);
        let mi = self.mints[mint].clone();
        match mi.prog {
            TokProg::Spl => {
                let a = spl_token::state::Account { mint: mi.key, owner, amount: 0, delegate: None.into(), state: spl_token::state::AccountState::Initialized, is_native: None.into(), delegated_amount: 0, close_authority: None.into() };
                let mut d = vec![0u8; spl_token::state::Account::LEN];
                a.pack_into_slice(&mut d);
                self.bank.accts.insert(k, Acct { lamports: svm::rent_min(d.len()), data: d, owner: spl_token::ID, executable: false });
                if amount > 0 {
                    let ix = spl_token::instruction::mint_to(&spl_token::ID, &mi.key, &k, &mi.auth, &[], amount).unwrap();
                    self.must("spl mint_to", &ix);
                }
            }
            TokProg::T22 => {
                use spl_token_2022::extension::ExtensionType;
                let t22 = spl_token_2022::ID;
                let mint_data = self.bank.accts[&mi.key].data.clone();
                let mint_exts = project::t22_extension_types(&mint_data);
                let mut exts: Vec<ExtensionType> = if mint_exts.contains(&1) { vec![ExtensionType::TransferFeeAmount] } else { vec![] };
                if mint_exts.contains(&14) {
                    exts.push(ExtensionType::TransferHookAccount);
                }
                let space = ExtensionType::try_calculate_account_len::<spl_token_2022::state::Account>(&exts).unwrap();
                self.bank.accts.insert(k, Acct { lamports: svm::rent_min(space), data: vec![0u8; space], owner: t22, executable: false });
                let ix = spl_token_2022::instruction::initialize_account3(&t22, &k, &mi.key, &owner).unwrap();
                self.must("t22 init account3", &ix);
                if amount > 0 {
                    let ix = spl_token_2022::instruction::mint_to(&t22, &mi.key, &k, &mi.auth, &[], amount).unwrap();
                    self.must("t22 mint_to", &ix);
                }
            }
        }
        k
    }

    pub fn user_token(&mut self, user: &str, mint: &str, amount: u64) -> Pubkey {
        let owner = self.users[user];
        let k = self.add_token_account(&format!("utok:{user}:{mint}"), mint, owner, amount);
        self.utok.insert((user.to_string(), mint.to_string()), k);
        k
    }
    pub fn utok(&self, user: &str, mint: &str) -> Pubkey {
        self.utok[&(user.to_string(), mint.to_string())]
    }
    pub fn token_amount(&self, k: &Pubkey) -> u64 {
        match self.bank.accts.get(k) {
            Some(a) => project::token_account_fields(&a.data).map(|f| f.2).unwrap_or(0),
            None => 0,
        }
    }

    // ------------------------------------------------------------------ config, tiers, pools
    pub fn init_config(&mut self, name: &str, default_protocol_fee_rate: u16) {
        let config = self.new_key(&format!("cfg:{name}"));
        let (fa, ca, ra) = (format!("feeAuth{name}"), format!("collectAuth{name}"), format!("rewardAuth{name}"));
        let fk = self.add_user(&fa);
        let ck = self.add_user(&ca);
        let rk = self.add_user(&ra);
        let mut m = wa::InitializeConfig { config, funder: self.admin, system_program: system_program::ID }.to_account_metas(None);
        m[0].is_signer = true;
        let ix = Instruction {
            program_id: WP,
            accounts: m,
            data: wi::InitializeConfig { fee_authority: fk, collect_protocol_fees_authority: ck, reward_emissions_super_authority: rk, default_protocol_fee_rate }.data(),
        };
        self.must("initialize_config", &ix);
        self.cfgs.insert(name.to_string(), CfgInfo { key: config, fee_auth: fa, collect_auth: ca, reward_super_auth: rk_name(&ra), ext: None });
    }

    /// `initialize_config` as a recordable instruction (the config is registered in `cfgs` by the caller on success)
    pub fn ix_init_config(&mut self, name: &str, default_protocol_fee_rate: u16) -> (Ix, CfgInfo) {
        let config = self.new_key(&format!("cfg:{name}"));
        let (fa, ca, ra) = (format!("feeAuth{name}"), format!("collectAuth{name}"), format!("rewardAuth{name}"));
        let fk = self.add_user(&fa);
        let ck = self.add_user(&ca);
        let rk = self.add_user(&ra);
        let mut m = wa::InitializeConfig { config, funder: self.admin, system_program: system_program::ID }.to_account_metas(None);
        m[0].is_signer = true;
        let ix = Ix::new("initialize_config", "InitializeConfig", m,
            wi::InitializeConfig { fee_authority: fk, collect_protocol_fees_authority: ck, reward_emissions_super_authority: rk, default_protocol_fee_rate }.data(),
            json!({"cfg": name, "rate": default_protocol_fee_rate}));
        (ix, CfgInfo { key: config, fee_auth: fa, collect_auth: ca, reward_super_auth: rk_name(&ra), ext: None })
    }

    pub fn fee_tier_key(&self, cfg: &str, index: u16) -> Pubkey {
        pda(&[b"fee_tier", self.cfgs[cfg].key.as_ref(), &index.to_le_bytes()])
    }

    pub fn ix_init_fee_tier(&mut self, cfg: &str, spacing: u16, rate: u16) -> Ix {
        let c = self.cfgs[cfg].clone();
        let fee_tier = self.fee_tier_key(cfg, spacing);
        self.reg(fee_tier, &format!("tier:{cfg}:{spacing}"));
        Ix::new(
            "initialize_fee_tier",
            "InitializeFeeTier",
            wa::InitializeFeeTier { config: c.key, fee_tier, funder: self.funder, fee_authority: self.users[&c.fee_auth], system_program: system_program::ID }.to_account_metas(None),
            wi::InitializeFeeTier { tick_spacing: spacing, default_fee_rate: rate }.data(),
            json!({"cfg": cfg, "spacing": spacing, "rate": rate}),
        )
    }

    pub fn pool_key(&self, cfg: &str, ma: &Pubkey, mb: &Pubkey, tier_index: u16) -> Pubkey {
        pda(&[b"whirlpool", self.cfgs[cfg].key.as_ref(), ma.as_ref(), mb.as_ref(), &tier_index.to_le_bytes()])
    }

    fn register_pool(&mut self, name: &str, cfg: &str, mint_a: &str, mint_b: &str, spacing: u16, tier_index: u16, adaptive: bool, v2: bool) -> PoolInfo {
        let (ma, mb) = (self.mints[mint_a].key, self.mints[mint_b].key);
        let key = self.pool_key(cfg, &ma, &mb, tier_index);
        self.reg(key, &format!("pool:{name}"));
        let vault_a = self.new_key(&format!("vault:{name}:a"));
        let vault_b = self.new_key(&format!("vault:{name}:b"));
        let oracle = pda(&[b"oracle", key.as_ref()]);
        self.reg(oracle, &format!("oracle:{name}"));
        let p = PoolInfo { name: name.to_string(), key, cfg: cfg.to_string(), mint_a: mint_a.to_string(), mint_b: mint_b.to_string(), vault_a, vault_b, spacing, tier_index, oracle, adaptive, rewards: vec![], dynamic: false, v2 };
        self.pools.insert(name.to_string(), p.clone());
        p
    }

    pub fn badge_key(&self, cfg: &str, mint: &Pubkey) -> Pubkey {
        pda(&[b"token_badge", self.cfgs[cfg].key.as_ref(), mint.as_ref()])
    }

    pub fn ix_init_pool(&mut self, name: &str, cfg: &str, mint_a: &str, mint_b: &str, spacing: u16, sqrt_price: u128) -> Ix {
        let p = self.register_pool(name, cfg, mint_a, mint_b, spacing, spacing, false, false);
        let fee_tier = self.fee_tier_key(cfg, spacing);
        Ix::new(
            "initialize_pool",
            "InitializePool",
            wa::InitializePool { whirlpools_config: self.cfgs[cfg].key, token_mint_a: self.mints[mint_a].key, token_mint_b: self.mints[mint_b].key, funder: self.funder, whirlpool: p.key, token_vault_a: p.vault_a, token_vault_b: p.vault_b, fee_tier, token_program: spl_token::ID, system_program: system_program::ID, rent: sysvar::rent::ID }.to_account_metas(None),
            wi::InitializePool { bumps: whirlpool::state::WhirlpoolBumps { whirlpool_bump: 0 }, tick_spacing: spacing, initial_sqrt_price: sqrt_price }.data(),
            json!({"pool": name, "cfg": cfg, "spacing": spacing, "sqrtPrice": project::nu(sqrt_price)}),
        )
    }

    pub fn ix_init_pool_v2(&mut self, name: &str, cfg: &str, mint_a: &str, mint_b: &str, spacing: u16, sqrt_price: u128) -> Ix {
        let p = self.register_pool(name, cfg, mint_a, mint_b, spacing, spacing, false, true);
        let fee_tier = self.fee_tier_key(cfg, spacing);
        let (ma, mb) = (self.mints[mint_a].clone(), self.mints[mint_b].clone());
        let (ba, bb) = (self.badge_key(cfg, &ma.key), self.badge_key(cfg, &mb.key));
        Ix::new(
            "initialize_pool_v2",
            "InitializePoolV2",
            wa::InitializePoolV2 { whirlpools_config: self.cfgs[cfg].key, token_mint_a: ma.key, token_mint_b: mb.key, token_badge_a: ba, token_badge_b: bb, funder: self.funder, whirlpool: p.key, token_vault_a: p.vault_a, token_vault_b: p.vault_b, fee_tier, token_program_a: ma.prog.id(), token_program_b: mb.prog.id(), system_program: system_program::ID, rent: sysvar::rent::ID }.to_account_metas(None),
            wi::InitializePoolV2 { tick_spacing: spacing, initial_sqrt_price: sqrt_price }.data(),
            json!({"pool": name, "cfg": cfg, "spacing": spacing, "sqrtPrice": project::nu(sqrt_price)}),
        )
    }

    pub fn tick_array_key(&self, pool: &str, start: i32) -> Pubkey {
        pda(&[b"tick_array", self.pools[pool].key.as_ref(), start.to_string().as_bytes()])
    }
    pub fn ta_start(&self, pool: &str, tick: i32) -> i32 {
        let span = self.pools[pool].spacing as i32 * 88;
        tick.div_euclid(span) * span
    }
    pub fn ta_exists(&self, pool: &str, start: i32) -> bool {
        self.bank.accts.contains_key(&self.tick_array_key(pool, start))
    }

    pub fn ix_init_tick_array(&mut self, pool: &str, start: i32, dynamic: bool) -> Ix {
        let ta = self.tick_array_key(pool, start);
        self.reg(ta, &format!("ta:{pool}:{start}"));
        let p = self.pools[pool].clone();
        if dynamic {
            Ix::new(
                "initialize_dynamic_tick_array",
                "InitializeDynamicTickArray",
                wa::InitializeDynamicTickArray { whirlpool: p.key, funder: self.funder, tick_array: ta, system_program: system_program::ID }.to_account_metas(None),
                wi::InitializeDynamicTickArray { start_tick_index: start, idempotent: false }.data(),
                json!({"pool": pool, "start": start, "dyn": true}),
            )
        } else {
            Ix::new(
                "initialize_tick_array",
                "InitializeTickArray",
                wa::InitializeTickArray { whirlpool: p.key, funder: self.funder, tick_array: ta, system_program: system_program::ID }.to_account_metas(None),
                wi::InitializeTickArray { start_tick_index: start }.data(),
                json!({"pool": pool, "start": start, "dyn": false}),
            )
        }
    }

    /// Makes sure the tick array containing `tick` exists (setup helper, not recorded).
    pub fn ensure_tick_array(&mut self, pool: &str, tick: i32) {
        let start = self.ta_start(pool, tick);
        if !self.ta_exists(pool, start) {
            let dynamic = self.pools[pool].dynamic;
            let ix = self.ix_init_tick_array(pool, start, dynamic);
            self.must_ix(&ix);
        }
    }

    // ------------------------------------------------------------------ positions
    fn next_pos_name(&mut self) -> String {
        self.npos += 1;
        format!("X{}", self.npos)
    }

    pub fn ix_open_position(&mut self, pool: &str, owner: &str, lo: i32, up: i32, kind: PosKind) -> (Ix, PosInfo) {
        let name = self.next_pos_name();
        let p = self.pools[pool].clone();
        let ownerk = self.users[owner];
        let mint = self.new_key(&format!("posmint:{name}"));
        let position = pda(&[b"position", mint.as_ref()]);
        self.reg(position, &format!("pos:{name}"));
        let args = json!({"pos": name, "pool": pool, "owner": owner, "lo": lo, "up": up, "kind": format!("{kind:?}")});
        let (ix, pta) = match kind {
            PosKind::Plain => {
                let pta = spl_associated_token_account::get_associated_token_address(&ownerk, &mint);
                (
                    Ix::new(
                        "open_position",
                        "OpenPosition",
                        wa::OpenPosition { funder: self.funder, owner: ownerk, position, position_mint: mint, position_token_account: pta, whirlpool: p.key, token_program: spl_token::ID, system_program: system_program::ID, rent: sysvar::rent::ID, associated_token_program: spl_associated_token_account::ID }.to_account_metas(None),
                        wi::OpenPosition { bumps: whirlpool::state::OpenPositionBumps { position_bump: 0 }, tick_lower_index: lo, tick_upper_index: up }.data(),
                        args,
                    ),
                    pta,
                )
            }
            PosKind::Meta => {
                let pta = spl_associated_token_account::get_associated_token_address(&ownerk, &mint);
                let mp = svm::metadata_program_id();
                let md = Pubkey::find_program_address(&[b"metadata", mp.as_ref(), mint.as_ref()], &mp).0;
                self.reg(md, &format!("posmeta:{name}"));
                (
                    Ix::new(
                        "open_position_with_metadata",
                        "OpenPositionWithMetadata",
                        wa::OpenPositionWithMetadata { funder: self.funder, owner: ownerk, position, position_mint: mint, position_metadata_account: md, position_token_account: pta, whirlpool: p.key, token_program: spl_token::ID, system_program: system_program::ID, rent: sysvar::rent::ID, associated_token_program: spl_associated_token_account::ID, metadata_program: mp, metadata_update_auth: whirlpool::constants::nft::whirlpool_nft_update_auth::ID }.to_account_metas(None),
                        wi::OpenPositionWithMetadata { bumps: whirlpool::state::OpenPositionWithMetadataBumps { position_bump: 0, metadata_bump: 0 }, tick_lower_index: lo, tick_upper_index: up }.data(),
                        args,
                    ),
                    pta,
                )
            }
            PosKind::TokenExt => {
                let t22 = spl_token_2022::ID;
                let pta = spl_associated_token_account::get_associated_token_address_with_program_id(&ownerk, &mint, &t22);
                (
                    Ix::new(
                        "open_position_with_token_extensions",
                        "OpenPositionWithTokenExtensions",
                        wa::OpenPositionWithTokenExtensions { funder: self.funder, owner: ownerk, position, position_mint: mint, position_token_account: pta, whirlpool: p.key, token_2022_program: t22, system_program: system_program::ID, associated_token_program: spl_associated_token_account::ID, metadata_update_auth: whirlpool::constants::nft::whirlpool_nft_update_auth::ID }.to_account_metas(None),
                        wi::OpenPositionWithTokenExtensions { tick_lower_index: lo, tick_upper_index: up, with_token_metadata_extension: true }.data(),
                        args,
                    ),
                    pta,
                )
            }
            PosKind::Bundled => panic!("use ix_open_bundled_position"),
        };
        self.reg(pta, &format!("posta:{name}"));
        let info = PosInfo { name: name.clone(), key: position, mint, token_account: pta, owner: owner.to_string(), pool: pool.to_string(), kind, bundle: None };
        (ix, info)
    }

    pub fn ix_init_bundle(&mut self, name: &str, owner: &str) -> (Ix, BundleInfo) {
        let ownerk = self.users[owner];
        let mint = self.new_key(&format!("bundlemint:{name}"));
        let bundle = pda(&[b"position_bundle", mint.as_ref()]);
        self.reg(bundle, &format!("bundle:{name}"));
        let ta = spl_associated_token_account::get_associated_token_address(&ownerk, &mint);
        self.reg(ta, &format!("bundleta:{name}"));
        let ix = Ix::new(
            "initialize_position_bundle",
            "InitializePositionBundle",
            wa::InitializePositionBundle { position_bundle: bundle, position_bundle_mint: mint, position_bundle_token_account: ta, position_bundle_owner: ownerk, funder: self.funder, token_program: spl_token::ID, system_program: system_program::ID, rent: sysvar::rent::ID, associated_token_program: spl_associated_token_account::ID }.to_account_metas(None),
            wi::InitializePositionBundle {}.data(),
            json!({"bundle": name, "owner": owner}),
        );
        (ix, BundleInfo { name: name.to_string(), key: bundle, mint, token_account: ta, owner: owner.to_string() })
    }

    pub fn ix_open_bundled_position(&mut self, bundle: &str, index: u16, pool: &str, lo: i32, up: i32) -> (Ix, PosInfo) {
        let b = self.bundles[bundle].clone();
        let p = self.pools[pool].clone();
        let position = pda(&[b"bundled_position", b.mint.as_ref(), index.to_string().as_bytes()]);
        // a bundle index that was used before keeps its identity
        let name = match self.ids.get(&position) {
            Some(id) => id.trim_start_matches("pos:").to_string(),
            None => self.next_pos_name(),
        };
        self.reg(position, &format!("pos:{name}"));
        let ix = Ix::new(
            "open_bundled_position",
            "OpenBundledPosition",
            wa::OpenBundledPosition { bundled_position: position, position_bundle: b.key, position_bundle_token_account: b.token_account, position_bundle_authority: self.users[&b.owner], whirlpool: p.key, funder: self.funder, system_program: system_program::ID, rent: sysvar::rent::ID }.to_account_metas(None),
            wi::OpenBundledPosition { bundle_index: index, tick_lower_index: lo, tick_upper_index: up }.data(),
            json!({"pos": name, "bundle": bundle, "index": index, "pool": pool, "lo": lo, "up": up, "kind": "Bundled", "owner": b.owner}),
        );
        let info = PosInfo { name, key: position, mint: b.mint, token_account: b.token_account, owner: b.owner.clone(), pool: pool.to_string(), kind: PosKind::Bundled, bundle: Some((bundle.to_string(), index)) };
        (ix, info)
    }

    pub fn ix_close_bundled_position(&self, pos: &str) -> Ix {
        let x = self.positions[pos].clone();
        let (bn, idx) = x.bundle.clone().unwrap();
        let b = self.bundles[&bn].clone();
        Ix::new(
            "close_bundled_position",
            "CloseBundledPosition",
            wa::CloseBundledPosition { bundled_position: x.key, position_bundle: b.key, position_bundle_token_account: b.token_account, position_bundle_authority: self.users[&b.owner], receiver: self.funder }.to_account_metas(None),
            wi::CloseBundledPosition { bundle_index: idx }.data(),
            json!({"pos": pos, "bundle": bn, "index": idx}),
        )
    }

    pub fn ix_delete_bundle(&self, bundle: &str) -> Ix {
        let b = self.bundles[bundle].clone();
        Ix::new(
            "delete_position_bundle",
            "DeletePositionBundle",
            wa::DeletePositionBundle { position_bundle: b.key, position_bundle_mint: b.mint, position_bundle_token_account: b.token_account, position_bundle_owner: self.users[&b.owner], receiver: self.funder, token_program: spl_token::ID }.to_account_metas(None),
            wi::DeletePositionBundle {}.data(),
            json!({"bundle": bundle}),
        )
    }

    /// position fields read from the bank: (liq, lo, up)
    pub fn pos_range(&self, pos: &str) -> Option<(u128, i32, i32)> {
        let x = &self.positions[pos];
        let a = self.bank.accts.get(&x.key)?;
        let mut r = project::Rd::new(&a.data, 8 + 64);
        let liq = r.u128();
        let lo = r.i32();
        let up = r.i32();
        Some((liq, lo, up))
    }

    // ------------------------------------------------------------------ liquidity
    fn modify_metas(&self, pos: &str, user: &str) -> (Vec<AccountMeta>, PoolInfo) {
        let x = self.positions[pos].clone();
        let p = self.pools[&x.pool].clone();
        let (_, lo, up) = self.pos_range(pos).unwrap_or((0, 0, 0));
        let tal = self.tick_array_key(&x.pool, self.ta_start(&x.pool, lo));
        let tau = self.tick_array_key(&x.pool, self.ta_start(&x.pool, up));
        let m = wa::ModifyLiquidity { whirlpool: p.key, token_program: spl_token::ID, position_authority: self.users[user], position: x.key, position_token_account: x.token_account, token_owner_account_a: self.utok(user, &p.mint_a), token_owner_account_b: self.utok(user, &p.mint_b), token_vault_a: p.vault_a, token_vault_b: p.vault_b, tick_array_lower: tal, tick_array_upper: tau }.to_account_metas(None);
        (m, p)
    }
    fn modify_metas_v2(&self, pos: &str, user: &str) -> (Vec<AccountMeta>, PoolInfo) {
        let x = self.positions[pos].clone();
        let p = self.pools[&x.pool].clone();
        let (_, lo, up) = self.pos_range(pos).unwrap_or((0, 0, 0));
        let tal = self.tick_array_key(&x.pool, self.ta_start(&x.pool, lo));
        let tau = self.tick_array_key(&x.pool, self.ta_start(&x.pool, up));
        let (ma, mb) = (self.mints[&p.mint_a].clone(), self.mints[&p.mint_b].clone());
        let m = wa::ModifyLiquidityV2 { whirlpool: p.key, token_program_a: ma.prog.id(), token_program_b: mb.prog.id(), memo_program: spl_memo::ID, position_authority: self.users[user], position: x.key, position_token_account: x.token_account, token_mint_a: ma.key, token_mint_b: mb.key, token_owner_account_a: self.utok(user, &p.mint_a), token_owner_account_b: self.utok(user, &p.mint_b), token_vault_a: p.vault_a, token_vault_b: p.vault_b, tick_array_lower: tal, tick_array_upper: tau }.to_account_metas(None);
        (m, p)
    }

    pub fn ix_increase(&self, pos: &str, user: &str, liq: u128, max_a: u64, max_b: u64, v2: bool) -> Ix {
        let args = json!({"pos": pos, "user": user, "liq": project::nu(liq), "maxA": project::nu(max_a as u128), "maxB": project::nu(max_b as u128)});
        if v2 {
            let (m, _) = self.modify_metas_v2(pos, user);
            Ix::new("increase_liquidity_v2", "ModifyLiquidityV2", m, wi::IncreaseLiquidityV2 { liquidity_amount: liq, token_max_a: max_a, token_max_b: max_b, remaining_accounts_info: None }.data(), args)
        } else {
            let (m, _) = self.modify_metas(pos, user);
            Ix::new("increase_liquidity", "ModifyLiquidity", m, wi::IncreaseLiquidity { liquidity_amount: liq, token_max_a: max_a, token_max_b: max_b }.data(), args)
        }
    }
    pub fn ix_decrease(&self, pos: &str, user: &str, liq: u128, min_a: u64, min_b: u64, v2: bool) -> Ix {
        let args = json!({"pos": pos, "user": user, "liq": project::nu(liq), "minA": project::nu(min_a as u128), "minB": project::nu(min_b as u128)});
        if v2 {
            let (m, _) = self.modify_metas_v2(pos, user);
            Ix::new("decrease_liquidity_v2", "ModifyLiquidityV2", m, wi::DecreaseLiquidityV2 { liquidity_amount: liq, token_min_a: min_a, token_min_b: min_b, remaining_accounts_info: None }.data(), args)
        } else {
            let (m, _) = self.modify_metas(pos, user);
            Ix::new("decrease_liquidity", "ModifyLiquidity", m, wi::DecreaseLiquidity { liquidity_amount: liq, token_min_a: min_a, token_min_b: min_b }.data(), args)
        }
    }
    pub fn ix_increase_by_amounts(&self, pos: &str, user: &str, max_a: u64, max_b: u64, min_sp: u128, max_sp: u128) -> Ix {
        let (m, _) = self.modify_metas_v2(pos, user);
        Ix::new(
            "increase_liquidity_by_token_amounts_v2",
            "ModifyLiquidityV2",
            m,
            wi::IncreaseLiquidityByTokenAmountsV2 { method: whirlpool::instructions::IncreaseLiquidityMethod::ByTokenAmounts { token_max_a: max_a, token_max_b: max_b, min_sqrt_price: min_sp, max_sqrt_price: max_sp }, remaining_accounts_info: None }.data(),
            json!({"pos": pos, "user": user, "maxA": project::nu(max_a as u128), "maxB": project::nu(max_b as u128), "minSp": project::nu(min_sp), "maxSp": project::nu(max_sp)}),
        )
    }
    #[allow(clippy::too_many_arguments)]
    pub fn ix_reposition(&self, pos: &str, user: &str, new_lo: i32, new_up: i32, new_liq: u128, min_a: u64, min_b: u64, max_a: u64, max_b: u64) -> Ix {
        let x = self.positions[pos].clone();
        let p = self.pools[&x.pool].clone();
        let (_, lo, up) = self.pos_range(pos).unwrap_or((0, 0, 0));
        let k = |t: i32| self.tick_array_key(&x.pool, self.ta_start(&x.pool, t));
        let (ma, mb) = (self.mints[&p.mint_a].clone(), self.mints[&p.mint_b].clone());
        let m = wa::RepositionLiquidityV2 { whirlpool: p.key, token_program_a: ma.prog.id(), token_program_b: mb.prog.id(), memo_program: spl_memo::ID, position_authority: self.users[user], funder: self.funder, position: x.key, position_token_account: x.token_account, token_mint_a: ma.key, token_mint_b: mb.key, token_owner_account_a: self.utok(user, &p.mint_a), token_owner_account_b: self.utok(user, &p.mint_b), token_vault_a: p.vault_a, token_vault_b: p.vault_b, existing_tick_array_lower: k(lo), existing_tick_array_upper: k(up), new_tick_array_lower: k(new_lo), new_tick_array_upper: k(new_up), system_program: system_program::ID }.to_account_metas(None);
        Ix::new(
            "reposition_liquidity_v2",
            "RepositionLiquidityV2",
            m,
            wi::RepositionLiquidityV2 { new_tick_lower_index: new_lo, new_tick_upper_index: new_up, method: whirlpool::instructions::RepositionLiquidityMethod::ByLiquidity { new_liquidity_amount: new_liq, existing_range_token_min_a: min_a, existing_range_token_min_b: min_b, new_range_token_max_a: max_a, new_range_token_max_b: max_b }, remaining_accounts_info: None }.data(),
            json!({"pos": pos, "user": user, "newLo": new_lo, "newUp": new_up, "newLiq": project::nu(new_liq), "minA": project::nu(min_a as u128), "minB": project::nu(min_b as u128), "maxA": project::nu(max_a as u128), "maxB": project::nu(max_b as u128)}),
        )
    }

    // ------------------------------------------------------------------ swaps
    /// The three tick arrays a client would normally supply.
    pub fn swap_arrays(&self, pool: &str, a_to_b: bool) -> [Pubkey; 3] {
        let p = &self.pools[pool];
        let tick = self.pool_tick(pool);
        let span = p.spacing as i32 * 88;
        let shifted = if a_to_b { tick } else { tick + p.spacing as i32 };
        let s0 = shifted.div_euclid(span) * span;
        let d = if a_to_b { -span } else { span };
        [self.tick_array_key(pool, s0), self.tick_array_key(pool, s0 + d), self.tick_array_key(pool, s0 + 2 * d)]
    }
    pub fn pool_tick(&self, pool: &str) -> i32 {
        let a = &self.bank.accts[&self.pools[pool].key];
        i32::from_le_bytes(a.data[8 + 32 + 1 + 2 + 2 + 2 + 2 + 16 + 16..][..4].try_into().unwrap())
    }
    pub fn pool_sqrt_price(&self, pool: &str) -> u128 {
        let a = &self.bank.accts[&self.pools[pool].key];
        u128::from_le_bytes(a.data[8 + 32 + 1 + 2 + 2 + 2 + 2 + 16..][..16].try_into().unwrap())
    }
    pub fn pool_liquidity(&self, pool: &str) -> u128 {
        let a = &self.bank.accts[&self.pools[pool].key];
        u128::from_le_bytes(a.data[8 + 32 + 1 + 2 + 2 + 2 + 2..][..16].try_into().unwrap())
    }

    #[allow(clippy::too_many_arguments)]
    pub fn ix_swap(&self, pool: &str, user: &str, amount: u64, threshold: u64, limit: u128, exact_in: bool, a_to_b: bool, v2: bool) -> Ix {
        let p = self.pools[pool].clone();
        let tas = self.swap_arrays(pool, a_to_b);
        let args = json!({"pool": pool, "user": user, "amount": project::nu(amount as u128), "threshold": project::nu(threshold as u128), "limit": project::nu(limit), "exactIn": exact_in, "aToB": a_to_b});
        if v2 {
            let (ma, mb) = (self.mints[&p.mint_a].clone(), self.mints[&p.mint_b].clone());
            Ix::new(
                "swap_v2",
                "SwapV2",
                wa::SwapV2 { token_program_a: ma.prog.id(), token_program_b: mb.prog.id(), memo_program: spl_memo::ID, token_authority: self.users[user], whirlpool: p.key, token_mint_a: ma.key, token_mint_b: mb.key, token_owner_account_a: self.utok(user, &p.mint_a), token_vault_a: p.vault_a, token_owner_account_b: self.utok(user, &p.mint_b), token_vault_b: p.vault_b, tick_array_0: tas[0], tick_array_1: tas[1], tick_array_2: tas[2], oracle: p.oracle }.to_account_metas(None),
                wi::SwapV2 { amount, other_amount_threshold: threshold, sqrt_price_limit: limit, amount_specified_is_input: exact_in, a_to_b, remaining_accounts_info: None }.data(),
                args,
            )
        } else {
            let mut ix = Ix::new(
                "swap",
                "Swap",
                wa::Swap { token_program: spl_token::ID, token_authority: self.users[user], whirlpool: p.key, token_owner_account_a: self.utok(user, &p.mint_a), token_vault_a: p.vault_a, token_owner_account_b: self.utok(user, &p.mint_b), token_vault_b: p.vault_b, tick_array_0: tas[0], tick_array_1: tas[1], tick_array_2: tas[2], oracle: p.oracle }.to_account_metas(None),
                wi::Swap { amount, other_amount_threshold: threshold, sqrt_price_limit: limit, amount_specified_is_input: exact_in, a_to_b }.data(),
                args,
            );
            if p.adaptive {
                // pools with adaptive fee need the oracle writable (v1 declares it read-only)
                let i = ix.slot_index("oracle");
                ix.metas[i].is_writable = true;
            }
            ix
        }
    }

    #[allow(clippy::too_many_arguments)]
    pub fn ix_two_hop(&self, pool1: &str, pool2: &str, user: &str, amount: u64, threshold: u64, exact_in: bool, a_to_b_1: bool, a_to_b_2: bool, limit1: u128, limit2: u128, v2: bool) -> Ix {
        let (p1, p2) = (self.pools[pool1].clone(), self.pools[pool2].clone());
        let t1 = self.swap_arrays(pool1, a_to_b_1);
        let t2 = self.swap_arrays(pool2, a_to_b_2);
        let args = json!({"pool1": pool1, "pool2": pool2, "user": user, "amount": project::nu(amount as u128), "threshold": project::nu(threshold as u128), "exactIn": exact_in, "aToB1": a_to_b_1, "aToB2": a_to_b_2, "limit1": project::nu(limit1), "limit2": project::nu(limit2)});
        if v2 {
            let (m_in, v1_in, m_mid, v1_mid) = if a_to_b_1 { (&p1.mint_a, p1.vault_a, &p1.mint_b, p1.vault_b) } else { (&p1.mint_b, p1.vault_b, &p1.mint_a, p1.vault_a) };
            let (v2_mid, m_out, v2_out) = if a_to_b_2 { (p2.vault_a, &p2.mint_b, p2.vault_b) } else { (p2.vault_b, &p2.mint_a, p2.vault_a) };
            let (mi, mm, mo) = (self.mints[m_in].clone(), self.mints[m_mid].clone(), self.mints[m_out].clone());
            Ix::new(
                "two_hop_swap_v2",
                "TwoHopSwapV2",
                wa::TwoHopSwapV2 { whirlpool_one: p1.key, whirlpool_two: p2.key, token_mint_input: mi.key, token_mint_intermediate: mm.key, token_mint_output: mo.key, token_program_input: mi.prog.id(), token_program_intermediate: mm.prog.id(), token_program_output: mo.prog.id(), token_owner_account_input: self.utok(user, m_in), token_vault_one_input: v1_in, token_vault_one_intermediate: v1_mid, token_vault_two_intermediate: v2_mid, token_vault_two_output: v2_out, token_owner_account_output: self.utok(user, m_out), token_authority: self.users[user], tick_array_one_0: t1[0], tick_array_one_1: t1[1], tick_array_one_2: t1[2], tick_array_two_0: t2[0], tick_array_two_1: t2[1], tick_array_two_2: t2[2], oracle_one: p1.oracle, oracle_two: p2.oracle, memo_program: spl_memo::ID }.to_account_metas(None),
                wi::TwoHopSwapV2 { amount, other_amount_threshold: threshold, amount_specified_is_input: exact_in, a_to_b_one: a_to_b_1, a_to_b_two: a_to_b_2, sqrt_price_limit_one: limit1, sqrt_price_limit_two: limit2, remaining_accounts_info: None }.data(),
                args,
            )
        } else {
            let mut ix = Ix::new(
                "two_hop_swap",
                "TwoHopSwap",
                wa::TwoHopSwap { token_program: spl_token::ID, token_authority: self.users[user], whirlpool_one: p1.key, whirlpool_two: p2.key, token_owner_account_one_a: self.utok(user, &p1.mint_a), token_vault_one_a: p1.vault_a, token_owner_account_one_b: self.utok(user, &p1.mint_b), token_vault_one_b: p1.vault_b, token_owner_account_two_a: self.utok(user, &p2.mint_a), token_vault_two_a: p2.vault_a, token_owner_account_two_b: self.utok(user, &p2.mint_b), token_vault_two_b: p2.vault_b, tick_array_one_0: t1[0], tick_array_one_1: t1[1], tick_array_one_2: t1[2], tick_array_two_0: t2[0], tick_array_two_1: t2[1], tick_array_two_2: t2[2], oracle_one: p1.oracle, oracle_two: p2.oracle }.to_account_metas(None),
                wi::TwoHopSwap { amount, other_amount_threshold: threshold, amount_specified_is_input: exact_in, a_to_b_one: a_to_b_1, a_to_b_two: a_to_b_2, sqrt_price_limit_one: limit1, sqrt_price_limit_two: limit2 }.data(),
                args,
            );
            // pools with adaptive fee need their oracle writable (v1 declares both read-only)
            for (slot, adaptive) in [("oracle_one", p1.adaptive), ("oracle_two", p2.adaptive)] {
                if adaptive {
                    let i = ix.slot_index(slot);
                    ix.metas[i].is_writable = true;
                }
            }
            ix
        }
    }

    // ------------------------------------------------------------------ fees & rewards
    pub fn ix_update_fees(&self, pos: &str) -> Ix {
        let x = self.positions[pos].clone();
        let p = self.pools[&x.pool].clone();
        let (_, lo, up) = self.pos_range(pos).unwrap_or((0, 0, 0));
        let k = |t: i32| self.tick_array_key(&x.pool, self.ta_start(&x.pool, t));
        Ix::new(
            "update_fees_and_rewards",
            "UpdateFeesAndRewards",
            wa::UpdateFeesAndRewards { whirlpool: p.key, position: x.key, tick_array_lower: k(lo), tick_array_upper: k(up) }.to_account_metas(None),
            wi::UpdateFeesAndRewards {}.data(),
            json!({"pos": pos}),
        )
    }
    pub fn ix_collect_fees(&self, pos: &str, user: &str, v2: bool) -> Ix {
        let x = self.positions[pos].clone();
        let p = self.pools[&x.pool].clone();
        let args = json!({"pos": pos, "user": user});
        if v2 {
            let (ma, mb) = (self.mints[&p.mint_a].clone(), self.mints[&p.mint_b].clone());
            Ix::new(
                "collect_fees_v2",
                "CollectFeesV2",
                wa::CollectFeesV2 { whirlpool: p.key, position_authority: self.users[user], position: x.key, position_token_account: x.token_account, token_mint_a: ma.key, token_mint_b: mb.key, token_owner_account_a: self.utok(user, &p.mint_a), token_vault_a: p.vault_a, token_owner_account_b: self.utok(user, &p.mint_b), token_vault_b: p.vault_b, token_program_a: ma.prog.id(), token_program_b: mb.prog.id(), memo_program: spl_memo::ID }.to_account_metas(None),
                wi::CollectFeesV2 { remaining_accounts_info: None }.data(),
                args,
            )
        } else {
            Ix::new(
                "collect_fees",
                "CollectFees",
                wa::CollectFees { whirlpool: p.key, position_authority: self.users[user], position: x.key, position_token_account: x.token_account, token_owner_account_a: self.utok(user, &p.mint_a), token_vault_a: p.vault_a, token_owner_account_b: self.utok(user, &p.mint_b), token_vault_b: p.vault_b, token_program: spl_token::ID }.to_account_metas(None),
                wi::CollectFees {}.data(),
                args,
            )
        }
    }
    pub fn ix_collect_reward(&self, pos: &str, user: &str, index: u8, v2: bool) -> Ix {
        let x = self.positions[pos].clone();
        let p = self.pools[&x.pool].clone();
        let (rm, rv) = p.rewards.get(index as usize).cloned().unwrap_or((p.mint_a.clone(), p.vault_a));
        let args = json!({"pos": pos, "user": user, "index": index});
        if v2 {
            let m = self.mints[&rm].clone();
            Ix::new(
                "collect_reward_v2",
                "CollectRewardV2",
                wa::CollectRewardV2 { whirlpool: p.key, position_authority: self.users[user], position: x.key, position_token_account: x.token_account, reward_owner_account: self.utok(user, &rm), reward_mint: m.key, reward_vault: rv, reward_token_program: m.prog.id(), memo_program: spl_memo::ID }.to_account_metas(None),
                wi::CollectRewardV2 { reward_index: index, remaining_accounts_info: None }.data(),
                args,
            )
        } else {
            Ix::new(
                "collect_reward",
                "CollectReward",
                wa::CollectReward { whirlpool: p.key, position_authority: self.users[user], position: x.key, position_token_account: x.token_account, reward_owner_account: self.utok(user, &rm), reward_vault: rv, token_program: spl_token::ID }.to_account_metas(None),
                wi::CollectReward { reward_index: index }.data(),
                args,
            )
        }
    }
    pub fn ix_collect_protocol_fees(&self, pool: &str, dest_user: &str, v2: bool) -> Ix {
        let p = self.pools[pool].clone();
        let c = self.cfgs[&p.cfg].clone();
        let args = json!({"pool": pool, "dest": dest_user});
        if v2 {
            let (ma, mb) = (self.mints[&p.mint_a].clone(), self.mints[&p.mint_b].clone());
            Ix::new(
                "collect_protocol_fees_v2",
                "CollectProtocolFeesV2",
                wa::CollectProtocolFeesV2 { whirlpools_config: c.key, whirlpool: p.key, collect_protocol_fees_authority: self.users[&c.collect_auth], token_mint_a: ma.key, token_mint_b: mb.key, token_vault_a: p.vault_a, token_vault_b: p.vault_b, token_destination_a: self.utok(dest_user, &p.mint_a), token_destination_b: self.utok(dest_user, &p.mint_b), token_program_a: ma.prog.id(), token_program_b: mb.prog.id(), memo_program: spl_memo::ID }.to_account_metas(None),
                wi::CollectProtocolFeesV2 { remaining_accounts_info: None }.data(),
                args,
            )
        } else {
            Ix::new(
                "collect_protocol_fees",
                "CollectProtocolFees",
                wa::CollectProtocolFees { whirlpools_config: c.key, whirlpool: p.key, collect_protocol_fees_authority: self.users[&c.collect_auth], token_vault_a: p.vault_a, token_vault_b: p.vault_b, token_destination_a: self.utok(dest_user, &p.mint_a), token_destination_b: self.utok(dest_user, &p.mint_b), token_program: spl_token::ID }.to_account_metas(None),
                wi::CollectProtocolFees {}.data(),
                args,
            )
        }
    }

    /// reward authority of a pool = reward super authority of the config at creation time unless changed
    pub fn pool_reward_authority(&self, pool: &str) -> Pubkey {
        let a = &self.bank.accts[&self.pools[pool].key];
        // reward_infos[0].extension
        let off = 8 + 261 + 64;
        Pubkey::new_from_array(a.data[off..off + 32].try_into().unwrap())
    }

    pub fn ix_init_reward(&mut self, pool: &str, index: u8, mint: &str, v2: bool) -> Ix {
        let p = self.pools[pool].clone();
        let vault = self.new_key(&format!("rvault:{pool}:{index}"));
        let m = self.mints[mint].clone();
        let auth = self.pool_reward_authority(pool);
        let args = json!({"pool": pool, "index": index, "mint": mint});
        if let Some(pp) = self.pools.get_mut(pool) {
            if pp.rewards.len() == index as usize {
                pp.rewards.push((mint.to_string(), vault));
            }
        }
        if v2 {
            let badge = self.badge_key(&p.cfg, &m.key);
            Ix::new(
                "initialize_reward_v2",
                "InitializeRewardV2",
                wa::InitializeRewardV2 { reward_authority: auth, funder: self.funder, whirlpool: p.key, reward_mint: m.key, reward_token_badge: badge, reward_vault: vault, reward_token_program: m.prog.id(), system_program: system_program::ID, rent: sysvar::rent::ID }.to_account_metas(None),
                wi::InitializeRewardV2 { reward_index: index }.data(),
                args,
            )
        } else {
            Ix::new(
                "initialize_reward",
                "InitializeReward",
                wa::InitializeReward { reward_authority: auth, funder: self.funder, whirlpool: p.key, reward_mint: m.key, reward_vault: vault, token_program: spl_token::ID, system_program: system_program::ID, rent: sysvar::rent::ID }.to_account_metas(None),
                wi::InitializeReward { reward_index: index }.data(),
                args,
            )
        }
    }
    pub fn ix_set_reward_emissions(&self, pool: &str, index: u8, emissions: u128, v2: bool) -> Ix {
        let p = self.pools[pool].clone();
        let rv = p.rewards.get(index as usize).map(|r| r.1).unwrap_or(p.vault_a);
        let auth = self.pool_reward_authority(pool);
        let args = json!({"pool": pool, "index": index, "emissions": project::nu(emissions)});
        if v2 {
            Ix::new("set_reward_emissions_v2", "SetRewardEmissionsV2", wa::SetRewardEmissionsV2 { whirlpool: p.key, reward_authority: auth, reward_vault: rv }.to_account_metas(None), wi::SetRewardEmissionsV2 { reward_index: index, emissions_per_second_x64: emissions }.data(), args)
        } else {
            Ix::new("set_reward_emissions", "SetRewardEmissions", wa::SetRewardEmissions { whirlpool: p.key, reward_authority: auth, reward_vault: rv }.to_account_metas(None), wi::SetRewardEmissions { reward_index: index, emissions_per_second_x64: emissions }.data(), args)
        }
    }

    // ------------------------------------------------------------------ position life-cycle
    pub fn ix_close_position(&self, pos: &str, user: &str) -> Ix {
        let x = self.positions[pos].clone();
        let args = json!({"pos": pos, "user": user});
        match x.kind {
            PosKind::TokenExt => Ix::new(
                "close_position_with_token_extensions",
                "ClosePositionWithTokenExtensions",
                wa::ClosePositionWithTokenExtensions { position_authority: self.users[user], receiver: self.funder, position: x.key, position_mint: x.mint, position_token_account: x.token_account, token_2022_program: spl_token_2022::ID }.to_account_metas(None),
                wi::ClosePositionWithTokenExtensions {}.data(),
                args,
            ),
            PosKind::Bundled => self.ix_close_bundled_position(pos),
            _ => Ix::new(
                "close_position",
                "ClosePosition",
                wa::ClosePosition { position_authority: self.users[user], receiver: self.funder, position: x.key, position_mint: x.mint, position_token_account: x.token_account, token_program: spl_token::ID }.to_account_metas(None),
                wi::ClosePosition {}.data(),
                args,
            ),
        }
    }
    pub fn lock_config_key(&self, pos: &str) -> Pubkey {
        pda(&[b"lock_config", self.positions[pos].key.as_ref()])
    }
    pub fn ix_lock_position(&mut self, pos: &str, user: &str) -> Ix {
        let x = self.positions[pos].clone();
        let p = self.pools[&x.pool].clone();
        let lc = self.lock_config_key(pos);
        self.reg(lc, &format!("lock:{pos}"));
        Ix::new(
            "lock_position",
            "LockPosition",
            wa::LockPosition { funder: self.funder, position_authority: self.users[user], position: x.key, position_mint: x.mint, position_token_account: x.token_account, lock_config: lc, whirlpool: p.key, token_2022_program: spl_token_2022::ID, system_program: system_program::ID }.to_account_metas(None),
            wi::LockPosition { lock_type: whirlpool::state::LockType::Permanent }.data(),
            json!({"pos": pos, "user": user}),
        )
    }
    pub fn ix_reset_range(&self, pos: &str, user: &str, lo: i32, up: i32) -> Ix {
        let x = self.positions[pos].clone();
        let p = self.pools[&x.pool].clone();
        Ix::new(
            "reset_position_range",
            "ResetPositionRange",
            wa::ResetPositionRange { funder: self.funder, position_authority: self.users[user], whirlpool: p.key, position: x.key, position_token_account: x.token_account, system_program: system_program::ID }.to_account_metas(None),
            wi::ResetPositionRange { new_tick_lower_index: lo, new_tick_upper_index: up }.data(),
            json!({"pos": pos, "user": user, "lo": lo, "up": up}),
        )
    }
    pub fn ix_transfer_locked(&mut self, pos: &str, user: &str, to_user: &str) -> (Ix, Pubkey) {
        let x = self.positions[pos].clone();
        let dest_owner = self.users[to_user];
        let dest = spl_associated_token_account::get_associated_token_address_with_program_id(&dest_owner, &x.mint, &spl_token_2022::ID);
        let lc = self.lock_config_key(pos);
        let ix = Ix::new(
            "transfer_locked_position",
            "TransferLockedPosition",
            wa::TransferLockedPosition { position_authority: self.users[user], receiver: self.funder, position: x.key, position_mint: x.mint, position_token_account: x.token_account, destination_token_account: dest, lock_config: lc, token_2022_program: spl_token_2022::ID }.to_account_metas(None),
            wi::TransferLockedPosition {}.data(),
            json!({"pos": pos, "user": user, "to": to_user}),
        );
        (ix, dest)
    }

    // ------------------------------------------------------------------ projection & events
    pub fn project(&self) -> Value {
        project::project(&self.bank, &self.ids)
    }

    pub fn slots_json(&self, ix: &Ix) -> Value {
        let names = ix.slot_names();
        let mut m = serde_json::Map::new();
        for (i, meta) in ix.metas.iter().enumerate() {
            let id = if meta.pubkey == system_program::ID { "prog:system".to_string() } else { self.id(&meta.pubkey) };
            m.insert(names[i].clone(), json!({"id": id, "s": meta.is_signer, "w": meta.is_writable}));
        }
        Value::Object(m)
    }
}

fn rk_name(s: &str) -> String {
    s.to_string()
}

/// Decode the events (sol_log_data payloads) the program emitted into JSON.
pub fn decode_events(w: &World, ex: &Exec) -> Vec<Value> {
    use anchor_lang::Discriminator;
    use whirlpool::events as ev;
    let mut out = vec![];
    let mut payloads: Vec<Vec<u8>> = ex.data_logs.clone();
    for h in ex.hook_events.iter() {
        if let Ok(v) = serde_json::from_str::<Value>(h) {
            if v["k"] == "pinolog" {
                for d in v["data"].as_array().unwrap() {
                    let s = d.as_str().unwrap();
                    let bytes: Vec<u8> = (0..s.len() / 2).map(|i| u8::from_str_radix(&s[2 * i..2 * i + 2], 16).unwrap()).collect();
                    payloads.push(bytes);
                }
            }
        }
    }
    let id = |k: &Pubkey| w.id(k);
    let n = |x: u64| project::nu(x as u128);
    for p in payloads {
        if p.len() < 8 {
            continue;
        }
        let (d, mut body) = (&p[..8], &p[8..]);
        use anchor_lang::AnchorDeserialize;
        if d == ev::Traded::DISCRIMINATOR {
            if let Ok(e) = ev::Traded::deserialize(&mut body) {
                out.push(json!({"ev": "Traded", "pool": id(&e.whirlpool), "aToB": e.a_to_b, "preSqrtPrice": project::nu(e.pre_sqrt_price), "postSqrtPrice": project::nu(e.post_sqrt_price),
                    "inputAmount": n(e.input_amount), "outputAmount": n(e.output_amount), "inputTransferFee": n(e.input_transfer_fee), "outputTransferFee": n(e.output_transfer_fee),
                    "lpFee": n(e.lp_fee), "protocolFee": n(e.protocol_fee)}));
            }
        } else if d == ev::LiquidityIncreased::DISCRIMINATOR {
            if let Ok(e) = ev::LiquidityIncreased::deserialize(&mut body) {
                out.push(json!({"ev": "LiquidityIncreased", "pool": id(&e.whirlpool), "pos": id(&e.position), "lo": e.tick_lower_index, "up": e.tick_upper_index, "liq": project::nu(e.liquidity),
                    "amountA": n(e.token_a_amount), "amountB": n(e.token_b_amount), "feeA": n(e.token_a_transfer_fee), "feeB": n(e.token_b_transfer_fee)}));
            }
        } else if d == ev::LiquidityDecreased::DISCRIMINATOR {
            if let Ok(e) = ev::LiquidityDecreased::deserialize(&mut body) {
                out.push(json!({"ev": "LiquidityDecreased", "pool": id(&e.whirlpool), "pos": id(&e.position), "lo": e.tick_lower_index, "up": e.tick_upper_index, "liq": project::nu(e.liquidity),
                    "amountA": n(e.token_a_amount), "amountB": n(e.token_b_amount), "feeA": n(e.token_a_transfer_fee), "feeB": n(e.token_b_transfer_fee)}));
            }
        } else if d == ev::LiquidityRepositioned::DISCRIMINATOR {
            if let Ok(e) = ev::LiquidityRepositioned::deserialize(&mut body) {
                out.push(json!({"ev": "LiquidityRepositioned", "pool": id(&e.whirlpool), "pos": id(&e.position),
                    "oldLo": e.existing_range_tick_lower_index, "oldUp": e.existing_range_tick_upper_index, "newLo": e.new_range_tick_lower_index, "newUp": e.new_range_tick_upper_index,
                    "oldLiq": project::nu(e.existing_range_liquidity), "newLiq": project::nu(e.new_range_liquidity),
                    "oldA": n(e.existing_range_token_a_amount), "oldB": n(e.existing_range_token_b_amount), "newA": n(e.new_range_token_a_amount), "newB": n(e.new_range_token_b_amount),
                    "xferA": n(e.token_a_transfer_amount), "feeA": n(e.token_a_transfer_fee), "fromOwnerA": e.is_token_a_transfer_from_owner,
                    "xferB": n(e.token_b_transfer_amount), "feeB": n(e.token_b_transfer_fee), "fromOwnerB": e.is_token_b_transfer_from_owner}));
            }
        } else if d == ev::PoolInitialized::DISCRIMINATOR {
            if let Ok(e) = ev::PoolInitialized::deserialize(&mut body) {
                out.push(json!({"ev": "PoolInitialized", "pool": id(&e.whirlpool), "cfg": id(&e.whirlpools_config), "mintA": id(&e.token_mint_a), "mintB": id(&e.token_mint_b),
                    "spacing": e.tick_spacing, "progA": id(&e.token_program_a), "progB": id(&e.token_program_b), "decimalsA": e.decimals_a, "decimalsB": e.decimals_b,
                    "sqrtPrice": project::nu(e.initial_sqrt_price)}));
            }
        } else if d == ev::PositionOpened::DISCRIMINATOR {
            if let Ok(e) = ev::PositionOpened::deserialize(&mut body) {
                out.push(json!({"ev": "PositionOpened", "pool": id(&e.whirlpool), "pos": id(&e.position), "lo": e.tick_lower_index, "up": e.tick_upper_index}));
            }
        } else {
            out.push(json!({"ev": "other"}));
        }
    }
    out
}
