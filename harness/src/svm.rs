//! "nanosvm": a minimal native runtime that executes the real whirlpool instruction handlers
//! (Anchor- and Pinocchio-dispatched) with the real SPL token / token-2022 / ATA processors
//! servicing CPIs. See DESIGN.md section 3.3.
use solana_program::account_info::AccountInfo;
use solana_program::instruction::Instruction;
use solana_program::program_error::ProgramError;
use solana_program::pubkey::Pubkey;
use solana_program::{system_program, sysvar};
use std::cell::RefCell;
use std::collections::BTreeMap;

pub const MAX_PERMITTED_DATA_INCREASE: usize = 10240;

pub fn metadata_program_id() -> Pubkey {
    anchor_spl::metadata::ID
}

#[derive(Clone, Debug, Default, PartialEq, Eq)]
pub struct Acct {
    pub lamports: u64,
    pub data: Vec<u8>,
    pub owner: Pubkey,
    pub executable: bool,
}

#[derive(Default, Clone)]
pub struct Bank {
    pub accts: BTreeMap<Pubkey, Acct>,
}

/// Result of one top-level instruction.
#[derive(Debug, Clone, Default)]
pub struct Exec {
    pub code: u64,
    pub panic: Option<String>,
    pub logs: Vec<String>,
    /// sol_log_data payloads (Anchor events) + Pinocchio events (from the verif hook)
    pub data_logs: Vec<Vec<u8>>,
    /// JSON lines recorded by /repo's verif_hooks during this instruction
    pub hook_events: Vec<String>,
    /// violation of a runtime rule by the program (lamports not conserved, read-only account modified, ...)
    pub runtime_violation: Option<String>,
    pub cpi_count: usize,
}
impl Exec {
    pub fn ok(&self) -> bool {
        self.code == 0
    }
}

thread_local! {
    static CLOCK_TS: RefCell<i64> = const { RefCell::new(1_700_000_000) };
    static STACK: RefCell<Vec<Pubkey>> = const { RefCell::new(vec![]) };
    static RETURN_DATA: RefCell<Option<(Pubkey, Vec<u8>)>> = const { RefCell::new(None) };
    static LOGS: RefCell<Vec<String>> = const { RefCell::new(vec![]) };
    static DATA_LOGS: RefCell<Vec<Vec<u8>>> = const { RefCell::new(vec![]) };
    static CPI_COUNT: RefCell<usize> = const { RefCell::new(0) };
}

pub fn set_clock(ts: i64) {
    CLOCK_TS.with(|c| *c.borrow_mut() = ts);
}
pub fn clock() -> i64 {
    CLOCK_TS.with(|c| *c.borrow())
}

fn clock_bytes() -> [u8; 40] {
    let ts = clock();
    let mut b = [0u8; 40];
    b[0..8].copy_from_slice(&100u64.to_le_bytes()); // slot
    b[8..16].copy_from_slice(&ts.to_le_bytes()); // epoch_start_timestamp
    b[16..24].copy_from_slice(&EPOCH.with(|e| *e.borrow()).to_le_bytes()); // epoch
    b[24..32].copy_from_slice(&11u64.to_le_bytes()); // leader_schedule_epoch
    b[32..40].copy_from_slice(&ts.to_le_bytes()); // unix_timestamp
    b
}
thread_local! { static EPOCH: RefCell<u64> = const { RefCell::new(10) }; }
thread_local! { static ANCHOR_ONLY: RefCell<bool> = const { RefCell::new(false) }; }
/// C12: bypass the Pinocchio routing table and dispatch every instruction to the Anchor handlers
/// (which still exist for the six Pinocchio-served instructions but are unreachable in production).
pub fn set_anchor_only(b: bool) {
    ANCHOR_ONLY.with(|c| *c.borrow_mut() = b);
}
pub fn set_epoch(e: u64) {
    EPOCH.with(|c| *c.borrow_mut() = e);
}
pub fn epoch() -> u64 {
    EPOCH.with(|e| *e.borrow())
}

pub fn rent_min(len: usize) -> u64 {
    solana_program::rent::Rent::default().minimum_balance(len)
}

// ---------------- CPI dispatch (shared by solana-side and pinocchio-side stubs) -------------

fn system_program_process(accounts: &[AccountInfo], data: &[u8]) -> Result<(), ProgramError> {
    if data.len() < 4 {
        return Err(ProgramError::InvalidInstructionData);
    }
    let tag = u32::from_le_bytes(data[0..4].try_into().unwrap());
    match tag {
        0 => {
            // CreateAccount
            let lamports = u64::from_le_bytes(data[4..12].try_into().unwrap());
            let space = u64::from_le_bytes(data[12..20].try_into().unwrap());
            let owner = Pubkey::new_from_array(data[20..52].try_into().unwrap());
            let from = &accounts[0];
            let to = &accounts[1];
            if !from.is_signer || !to.is_signer {
                return Err(ProgramError::MissingRequiredSignature);
            }
            if to.lamports() != 0 || !to.data_is_empty() || *to.owner != system_program::ID {
                return Err(ProgramError::Custom(0)); // AccountAlreadyInUse
            }
            if from.lamports() < lamports {
                return Err(ProgramError::Custom(1));
            }
            **from.try_borrow_mut_lamports()? -= lamports;
            **to.try_borrow_mut_lamports()? += lamports;
            #[allow(deprecated)]
            to.realloc(space as usize, true)?;
            to.assign(&owner);
            Ok(())
        }
        1 => {
            let owner = Pubkey::new_from_array(data[4..36].try_into().unwrap());
            if !accounts[0].is_signer {
                return Err(ProgramError::MissingRequiredSignature);
            }
            accounts[0].assign(&owner);
            Ok(())
        }
        2 => {
            let lamports = u64::from_le_bytes(data[4..12].try_into().unwrap());
            let from = &accounts[0];
            let to = &accounts[1];
            if !from.is_signer {
                return Err(ProgramError::MissingRequiredSignature);
            }
            if !from.data_is_empty() {
                return Err(ProgramError::InvalidArgument);
            }
            if from.lamports() < lamports {
                return Err(ProgramError::Custom(1));
            }
            **from.try_borrow_mut_lamports()? -= lamports;
            **to.try_borrow_mut_lamports()? += lamports;
            Ok(())
        }
        8 => {
            let space = u64::from_le_bytes(data[4..12].try_into().unwrap());
            if !accounts[0].is_signer {
                return Err(ProgramError::MissingRequiredSignature);
            }
            #[allow(deprecated)]
            accounts[0].realloc(space as usize, true)?;
            Ok(())
        }
        _ => Err(ProgramError::InvalidInstructionData),
    }
}

fn dispatch(program_id: &Pubkey, accounts: &[AccountInfo], data: &[u8]) -> Result<(), ProgramError> {
    STACK.with(|s| s.borrow_mut().push(*program_id));
    CPI_COUNT.with(|c| *c.borrow_mut() += 1);
    let r = if *program_id == system_program::ID {
        system_program_process(accounts, data)
    } else if *program_id == spl_token::ID {
        spl_token::processor::Processor::process(program_id, accounts, data)
    } else if *program_id == spl_token_2022::ID {
        spl_token_2022::processor::Processor::process(program_id, accounts, data)
    } else if *program_id == spl_associated_token_account::ID {
        spl_associated_token_account::processor::process_instruction(program_id, accounts, data)
    } else if *program_id == spl_memo::ID {
        match std::str::from_utf8(data) {
            Ok(m) => {
                LOGS.with(|l| l.borrow_mut().push(format!("MEMO {m}")));
                Ok(())
            }
            Err(_) => Err(ProgramError::InvalidInstructionData),
        }
    } else if *program_id == metadata_program_id() {
        // no processor available offline: recording stub
        LOGS.with(|l| l.borrow_mut().push(format!("METAPLEX-STUB len={}", data.len())));
        Ok(())
    } else {
        Err(ProgramError::IncorrectProgramId)
    };
    STACK.with(|s| s.borrow_mut().pop());
    if std::env::var("TRACE_CPI").is_ok() {
        eprintln!("cpi {} data[0..{}]={:?} -> {:?}", program_id, data.len().min(12), &data[..data.len().min(12)], r);
    }
    r
}

struct Stubs;
impl solana_program::program_stubs::SyscallStubs for Stubs {
    fn sol_log(&self, message: &str) {
        LOGS.with(|l| l.borrow_mut().push(message.to_string()));
    }
    fn sol_log_data(&self, fields: &[&[u8]]) {
        for f in fields {
            DATA_LOGS.with(|l| l.borrow_mut().push(f.to_vec()));
        }
    }
    fn sol_get_clock_sysvar(&self, var_addr: *mut u8) -> u64 {
        let b = clock_bytes();
        unsafe { std::ptr::copy_nonoverlapping(b.as_ptr(), var_addr, 40) };
        0
    }
    fn sol_get_rent_sysvar(&self, var_addr: *mut u8) -> u64 {
        let r = solana_program::rent::Rent::default();
        unsafe { std::ptr::write_unaligned(var_addr as *mut solana_program::rent::Rent, r) };
        0
    }
    fn sol_get_return_data(&self) -> Option<(Pubkey, Vec<u8>)> {
        RETURN_DATA.with(|r| r.borrow().clone())
    }
    fn sol_set_return_data(&self, data: &[u8]) {
        let pid = STACK.with(|s| s.borrow().last().copied().unwrap_or_default());
        RETURN_DATA.with(|r| *r.borrow_mut() = Some((pid, data.to_vec())));
    }
    fn sol_get_stack_height(&self) -> u64 {
        STACK.with(|s| s.borrow().len() as u64)
    }
    fn sol_invoke_signed(
        &self,
        instruction: &Instruction,
        account_infos: &[AccountInfo],
        signers_seeds: &[&[&[u8]]],
    ) -> Result<(), ProgramError> {
        let caller = STACK.with(|s| *s.borrow().last().unwrap());
        let mut pda_signers: Vec<Pubkey> = vec![];
        for seeds in signers_seeds.iter() {
            match Pubkey::create_program_address(seeds, &caller) {
                Ok(k) => pda_signers.push(k),
                Err(_) => return Err(ProgramError::InvalidSeeds),
            }
        }
        // the program account itself must be among the accounts on chain; the harness tolerates its absence
        let mut callee_infos: Vec<AccountInfo> = vec![];
        for meta in instruction.accounts.iter() {
            let info = account_infos
                .iter()
                .find(|ai| *ai.key == meta.pubkey)
                .ok_or(ProgramError::NotEnoughAccountKeys)?;
            let mut c = info.clone();
            if meta.is_signer && !(info.is_signer || pda_signers.contains(&meta.pubkey)) {
                return Err(ProgramError::MissingRequiredSignature);
            }
            if meta.is_writable && !info.is_writable {
                return Err(ProgramError::InvalidAccountData);
            }
            c.is_signer = instruction.accounts.iter().any(|m| m.pubkey == meta.pubkey && m.is_signer);
            c.is_writable = instruction.accounts.iter().any(|m| m.pubkey == meta.pubkey && m.is_writable);
            callee_infos.push(c);
        }
        dispatch(&instruction.program_id, &callee_infos, &instruction.data)
    }
}

struct PinoStubs;
impl pinocchio::host_stubs::HostStubs for PinoStubs {
    fn get_sysvar(&self, name: &str, dst: *mut u8) -> u64 {
        match name {
            "sol_get_clock_sysvar" => {
                let b = clock_bytes();
                unsafe { std::ptr::copy_nonoverlapping(b.as_ptr(), dst, 40) };
                0
            }
            "sol_get_rent_sysvar" => {
                let r = solana_program::rent::Rent::default();
                unsafe { std::ptr::write_unaligned(dst as *mut solana_program::rent::Rent, r) };
                0
            }
            _ => 1,
        }
    }
    fn invoke_signed(&self, cpi: &pinocchio::host_stubs::HostCpi) -> u64 {
        let caller = STACK.with(|s| *s.borrow().last().unwrap());
        let mut pda_signers: Vec<Pubkey> = vec![];
        for seeds in cpi.signers_seeds.iter() {
            let s: Vec<&[u8]> = seeds.iter().map(|x| x.as_slice()).collect();
            match Pubkey::create_program_address(&s, &caller) {
                Ok(k) => pda_signers.push(k),
                Err(_) => return 4,
            }
        }
        let mut infos: Vec<AccountInfo> = vec![];
        for (key, _w, _s) in cpi.metas.iter() {
            let a = cpi.accounts.iter().find(|a| unsafe { *a.key } == *key);
            let a = match a {
                Some(a) => a,
                None => return 1,
            };
            let k = Pubkey::new_from_array(*key);
            // merged privileges over duplicate metas
            let s = cpi.metas.iter().any(|m| m.0 == *key && m.2);
            let w = cpi.metas.iter().any(|m| m.0 == *key && m.1);
            if s && !(a.is_signer || pda_signers.contains(&k)) {
                return 2;
            }
            if w && !a.is_writable {
                return 3;
            }
            unsafe {
                let keyref: &'static Pubkey = &*(a.key as *const Pubkey);
                let ownerref: &'static Pubkey = &*(a.owner as *const Pubkey);
                let lam: &'static mut u64 = &mut *a.lamports;
                let data: &'static mut [u8] = std::slice::from_raw_parts_mut(a.data, a.data_len as usize);
                infos.push(AccountInfo::new(keyref, s, w, lam, data, ownerref, a.executable, 0));
            }
        }
        let pid = Pubkey::new_from_array(*cpi.program_id);
        match dispatch(&pid, &infos, cpi.data) {
            Ok(()) => 0,
            Err(e) => {
                LOGS.with(|l| l.borrow_mut().push(format!("pino cpi failed: {e:?}")));
                u64::from(e).max(1)
            }
        }
    }
    fn log(&self, msg: &[u8]) {
        LOGS.with(|l| l.borrow_mut().push(format!("PINOLOG {}", String::from_utf8_lossy(msg))));
    }
}

static INIT: std::sync::Once = std::sync::Once::new();

pub fn init() {
    INIT.call_once(|| {
        solana_program::program_stubs::set_syscall_stubs(Box::new(Stubs));
        pinocchio::host_stubs::set_host_stubs(Box::new(PinoStubs));
        {
            use solana_program::program_stubs::SyscallStubs;
            *solana_cpi::host_stubs::INVOKE.write().unwrap() = Some(|i, a, s| Stubs.sol_invoke_signed(i, a, s));
            *solana_cpi::host_stubs::SET_RETURN_DATA.write().unwrap() = Some(|d| Stubs.sol_set_return_data(d));
            *solana_cpi::host_stubs::GET_RETURN_DATA.write().unwrap() = Some(|| Stubs.sol_get_return_data());
        }
        solana_msg::host_sink::set(|m| LOGS.with(|l| l.borrow_mut().push(m.to_string())));
        solana_msg::host_sink::set_data(|fields| {
            for f in fields {
                DATA_LOGS.with(|l| l.borrow_mut().push(f.to_vec()));
            }
        });
        // silence panic messages of the code under test (a panic is data); keep them with VERIF_PANIC_VERBOSE
        if std::env::var("VERIF_PANIC_VERBOSE").is_err() {
            let default_hook = std::panic::take_hook();
            std::panic::set_hook(Box::new(move |info| {
                let in_ix = STACK.with(|s| !s.borrow().is_empty());
                if !in_ix {
                    default_hook(info);
                }
            }));
        }
    });
}

// ---------------- instruction execution -------------

extern "C" {
    fn entrypoint(input: *mut u8) -> u64;
}

pub type PinoHandler = fn(&[pinocchio::account_info::AccountInfo], &[u8]) -> whirlpool::pinocchio::Result<()>;

pub fn pinocchio_table() -> [(&'static [u8], PinoHandler); 6] {
    use anchor_lang::Discriminator;
    [
        (whirlpool::instruction::IncreaseLiquidity::DISCRIMINATOR, whirlpool::pinocchio::instructions::increase_liquidity::handler),
        (whirlpool::instruction::DecreaseLiquidity::DISCRIMINATOR, whirlpool::pinocchio::instructions::decrease_liquidity::handler),
        (whirlpool::instruction::IncreaseLiquidityV2::DISCRIMINATOR, whirlpool::pinocchio::instructions::increase_liquidity_v2::handler),
        (whirlpool::instruction::DecreaseLiquidityV2::DISCRIMINATOR, whirlpool::pinocchio::instructions::decrease_liquidity_v2::handler),
        (whirlpool::instruction::IncreaseLiquidityByTokenAmountsV2::DISCRIMINATOR, whirlpool::pinocchio::instructions::increase_liquidity_by_token_amounts_v2::handler),
        (whirlpool::instruction::RepositionLiquidityV2::DISCRIMINATOR, whirlpool::pinocchio::instructions::reposition_liquidity_v2::handler),
    ]
}

/// Reproduction of the eight lines of /repo's `entrypoint` (a panic cannot unwind through the real
/// `extern "C"` symbol). The real symbol is cross-checked by `Bank::process_checked`.
unsafe fn dispatch_entry(input: *mut u8) -> u64 {
    let table = pinocchio_table();
    const UNINIT: core::mem::MaybeUninit<pinocchio::account_info::AccountInfo> = core::mem::MaybeUninit::uninit();
    let mut accounts = [UNINIT; 64];
    let (_pid, count, data) = pinocchio::entrypoint::deserialize::<64>(input, &mut accounts);
    {
        let pid_ptr = data.as_ptr().add(data.len());
        let pid = Pubkey::new_from_array(*(pid_ptr as *const [u8; 32]));
        if pid != whirlpool::ID {
            let (program_id, accounts, data) = solana_program::entrypoint::deserialize(input);
            STACK.with(|s| s.borrow_mut().pop());
            return match dispatch(program_id, &accounts, data) {
                Ok(()) => 0,
                Err(e) => u64::from(e).max(1),
            };
        }
    }
    let anchor_only = ANCHOR_ONLY.with(|c| *c.borrow());
    if let Some((_, h)) = table.iter().find(|t| !anchor_only && data.starts_with(t.0)) {
        let parsed = core::slice::from_raw_parts(accounts.as_ptr() as *const pinocchio::account_info::AccountInfo, count);
        return match h(parsed, data) {
            Ok(()) => 0,
            Err(e) => e.into(),
        };
    }
    let (program_id, accounts, data) = solana_program::entrypoint::deserialize(input);
    if anchor_only {
        if let Some(r) = anchor_liquidity_entry(program_id, &accounts, data) {
            return match r {
                Ok(()) => 0,
                Err(e) => {
                    e.log();
                    ProgramError::from(e).into()
                }
            };
        }
    }
    match whirlpool::entry(program_id, &accounts, data) {
        Ok(()) => 0,
        Err(e) => e.into(),
    }
}

/// C12: what Anchor's generated dispatcher would do for the four liquidity instructions whose Anchor
/// handlers still exist (`instructions::{increase,decrease}_liquidity::handler`, v1 and v2) but whose
/// `#[program]` entries are `unreachable!()` because the entrypoint serves them with Pinocchio.
fn anchor_liquidity_entry<'info>(program_id: &Pubkey, accounts: &'info [AccountInfo<'info>], data: &[u8]) -> Option<anchor_lang::Result<()>> {
    use anchor_lang::{Accounts, AccountsExit, AnchorDeserialize, Bumps, Discriminator};
    use whirlpool::instruction as wi;
    use whirlpool::instructions as h;
    if data.len() < 8 {
        return None;
    }
    let (disc, mut ixd) = (&data[..8], &data[8..]);
    let mut reallocs = std::collections::BTreeSet::new();
    let mut remaining: &[AccountInfo<'info>] = accounts;
    macro_rules! run {
        ($accts:ty, $args:ty, $call:expr) => {{
            let args = match <$args>::deserialize(&mut ixd) {
                Ok(a) => a,
                Err(_) => return Some(Err(anchor_lang::error::ErrorCode::InstructionDidNotDeserialize.into())),
            };
            let mut bumps = <$accts as Bumps>::Bumps::default();
            let mut accts = match <$accts>::try_accounts(program_id, &mut remaining, ixd, &mut bumps, &mut reallocs) {
                Ok(a) => a,
                Err(e) => return Some(Err(e)),
            };
            let ctx = anchor_lang::context::Context::new(program_id, &mut accts, remaining, bumps);
            #[allow(clippy::redundant_closure_call)]
            let r: anchor_lang::Result<()> = $call(ctx, args);
            Some(r.and_then(|_| accts.exit(program_id)))
        }};
    }
    if disc == wi::IncreaseLiquidity::DISCRIMINATOR {
        run!(h::ModifyLiquidity, wi::IncreaseLiquidity, |ctx, a: wi::IncreaseLiquidity| h::increase_liquidity::handler(ctx, a.liquidity_amount, a.token_max_a, a.token_max_b))
    } else if disc == wi::DecreaseLiquidity::DISCRIMINATOR {
        run!(h::ModifyLiquidity, wi::DecreaseLiquidity, |ctx, a: wi::DecreaseLiquidity| h::decrease_liquidity::handler(ctx, a.liquidity_amount, a.token_min_a, a.token_min_b))
    } else if disc == wi::IncreaseLiquidityV2::DISCRIMINATOR {
        run!(h::ModifyLiquidityV2, wi::IncreaseLiquidityV2, |ctx, a: wi::IncreaseLiquidityV2| h::v2::increase_liquidity::handler(ctx, a.liquidity_amount, a.token_max_a, a.token_max_b, a.remaining_accounts_info))
    } else if disc == wi::DecreaseLiquidityV2::DISCRIMINATOR {
        run!(h::ModifyLiquidityV2, wi::DecreaseLiquidityV2, |ctx, a: wi::DecreaseLiquidityV2| h::v2::decrease_liquidity::handler(ctx, a.liquidity_amount, a.token_min_a, a.token_min_b, a.remaining_accounts_info))
    } else {
        None
    }
}

struct Serialized {
    store: Vec<u64>,
    /// per instruction account: Some((offset of lamports, original data len)) for the first occurrence
    offsets: Vec<Option<(usize, usize)>>,
    len: usize,
}

impl Bank {
    fn serialize(&self, ix: &Instruction) -> Serialized {
        let mut buf: Vec<u8> = vec![];
        let n = ix.accounts.len();
        buf.extend_from_slice(&(n as u64).to_le_bytes());
        let mut first_index: BTreeMap<Pubkey, usize> = BTreeMap::new();
        let mut offsets: Vec<Option<(usize, usize)>> = vec![];
        for (i, m) in ix.accounts.iter().enumerate() {
            if let Some(&j) = first_index.get(&m.pubkey) {
                buf.push(j as u8);
                buf.extend_from_slice(&[0u8; 7]);
                offsets.push(None);
                continue;
            }
            first_index.insert(m.pubkey, i);
            let a = self.accts.get(&m.pubkey).cloned().unwrap_or(Acct {
                lamports: 0,
                data: vec![],
                owner: system_program::ID,
                executable: false,
            });
            let is_signer = ix.accounts.iter().any(|x| x.pubkey == m.pubkey && x.is_signer);
            let is_writable = ix.accounts.iter().any(|x| x.pubkey == m.pubkey && x.is_writable);
            buf.push(0xff);
            buf.push(is_signer as u8);
            buf.push(is_writable as u8);
            buf.push(a.executable as u8);
            buf.extend_from_slice(&[0u8; 4]);
            buf.extend_from_slice(m.pubkey.as_ref());
            buf.extend_from_slice(a.owner.as_ref());
            let lam_off = buf.len();
            buf.extend_from_slice(&a.lamports.to_le_bytes());
            buf.extend_from_slice(&(a.data.len() as u64).to_le_bytes());
            buf.extend_from_slice(&a.data);
            buf.extend(std::iter::repeat(0u8).take(MAX_PERMITTED_DATA_INCREASE));
            while buf.len() % 8 != 0 {
                buf.push(0);
            }
            buf.extend_from_slice(&u64::MAX.to_le_bytes()); // rent epoch
            offsets.push(Some((lam_off, a.data.len())));
        }
        buf.extend_from_slice(&(ix.data.len() as u64).to_le_bytes());
        buf.extend_from_slice(&ix.data);
        buf.extend_from_slice(ix.program_id.as_ref());
        let mut store: Vec<u64> = vec![0u64; buf.len() / 8 + 2];
        let p = store.as_mut_ptr() as *mut u8;
        unsafe { std::ptr::copy_nonoverlapping(buf.as_ptr(), p, buf.len()) };
        Serialized { store, offsets, len: buf.len() }
    }

    fn read_back(&self, ix: &Instruction, ser: &Serialized) -> Vec<(Pubkey, Acct)> {
        let p = ser.store.as_ptr() as *const u8;
        let mut out = vec![];
        for (i, m) in ix.accounts.iter().enumerate() {
            if let Some((lam_off, _)) = ser.offsets[i] {
                unsafe {
                    let lamports = std::ptr::read_unaligned(p.add(lam_off) as *const u64);
                    let dlen = std::ptr::read_unaligned(p.add(lam_off + 8) as *const u64) as usize;
                    let data = std::slice::from_raw_parts(p.add(lam_off + 16), dlen).to_vec();
                    let owner = Pubkey::new_from_array(std::ptr::read_unaligned(p.add(lam_off - 32) as *const [u8; 32]));
                    let executable = self.accts.get(&m.pubkey).map(|a| a.executable).unwrap_or(false);
                    out.push((m.pubkey, Acct { lamports, data, owner, executable }));
                }
            }
        }
        out
    }

    fn run(&self, ix: &Instruction, real_entry: bool) -> (Exec, Serialized) {
        init();
        let mut ser = self.serialize(ix);
        let p = ser.store.as_mut_ptr() as *mut u8;
        STACK.with(|s| {
            s.borrow_mut().clear();
            s.borrow_mut().push(ix.program_id)
        });
        RETURN_DATA.with(|r| *r.borrow_mut() = None);
        LOGS.with(|l| l.borrow_mut().clear());
        DATA_LOGS.with(|l| l.borrow_mut().clear());
        CPI_COUNT.with(|c| *c.borrow_mut() = 0);
        let _ = whirlpool::verif_hooks::take_events();
        let res = std::panic::catch_unwind(|| unsafe {
            if real_entry {
                entrypoint(p)
            } else {
                dispatch_entry(p)
            }
        });
        let mut ex = Exec::default();
        ex.code = match res {
            Ok(c) => c,
            Err(e) => {
                if let Some(a) = e.downcast_ref::<pinocchio::host_stubs_abort::CpiAbort>() {
                    a.0.max(1)
                } else {
                    let msg = e.downcast_ref::<String>().cloned().or(e.downcast_ref::<&str>().map(|s| s.to_string()));
                    ex.panic = Some(msg.unwrap_or_else(|| "<non-string panic>".into()));
                    u64::MAX
                }
            }
        };
        STACK.with(|s| s.borrow_mut().clear());
        ex.logs = LOGS.with(|l| std::mem::take(&mut *l.borrow_mut()));
        ex.data_logs = DATA_LOGS.with(|l| std::mem::take(&mut *l.borrow_mut()));
        ex.cpi_count = CPI_COUNT.with(|c| *c.borrow());
        ex.hook_events = whirlpool::verif_hooks::take_events();
        (ex, ser)
    }

    /// Execute one top-level instruction; on success account changes are committed, otherwise
    /// everything is discarded (transaction atomicity).
    pub fn process(&mut self, ix: &Instruction) -> Exec {
        let (mut ex, ser) = self.run(ix, false);
        if ex.code != 0 {
            return ex;
        }
        let after = self.read_back(ix, &ser);
        // runtime rules
        let mut lam_before: u128 = 0;
        let mut lam_after: u128 = 0;
        for (k, a) in after.iter() {
            let before = self.accts.get(k).cloned().unwrap_or(Acct { lamports: 0, data: vec![], owner: system_program::ID, executable: false });
            lam_before += before.lamports as u128;
            lam_after += a.lamports as u128;
            let writable = ix.accounts.iter().any(|m| m.pubkey == *k && m.is_writable);
            if !writable && (before.lamports != a.lamports || before.data != a.data || before.owner != a.owner) {
                ex.runtime_violation = Some(format!("read-only account {k} modified"));
            }
            if before.executable && (before.data != a.data || before.lamports != a.lamports) {
                ex.runtime_violation = Some(format!("executable account {k} modified"));
            }
        }
        if lam_before != lam_after {
            ex.runtime_violation = Some(format!("lamports not conserved: {lam_before} -> {lam_after}"));
        }
        if ex.runtime_violation.is_some() {
            ex.code = u64::MAX - 1;
            return ex;
        }
        for (k, a) in after {
            if a.lamports == 0 && a.data.is_empty() && a.owner == system_program::ID {
                self.accts.remove(&k);
            } else if a.lamports == 0 {
                // garbage-collected at the end of the transaction
                self.accts.remove(&k);
            } else {
                self.accts.insert(k, a);
            }
        }
        ex
    }

    /// Runs the instruction through the harness dispatch and (when it did not panic) through the
    /// real `extern "C" entrypoint` on a second copy; returns a description of any difference.
    pub fn routing_crosscheck(&self, ix: &Instruction) -> Option<String> {
        let (ex1, ser1) = self.run(ix, false);
        if ex1.panic.is_some() {
            return None;
        }
        // a Pinocchio CPI abort unwinds; it cannot cross the extern "C" boundary either
        if ex1.logs.iter().any(|l| l.starts_with("pino cpi failed")) {
            return None;
        }
        let (ex2, ser2) = self.run(ix, true);
        if ex1.code != ex2.code {
            return Some(format!("return code differs: dispatch {} vs entrypoint {}", ex1.code, ex2.code));
        }
        if ex1.code == 0 {
            let a = unsafe { std::slice::from_raw_parts(ser1.store.as_ptr() as *const u8, ser1.len) };
            let b = unsafe { std::slice::from_raw_parts(ser2.store.as_ptr() as *const u8, ser2.len) };
            if a != b {
                return Some("account buffer differs between dispatch and entrypoint".into());
            }
        }
        None
    }

    /// Present some accounts of the bank as Pinocchio `AccountInfo`s (loader input format) to a closure.
    pub fn with_pino_accounts<R>(&self, keys: &[Pubkey], f: impl FnOnce(&[pinocchio::account_info::AccountInfo]) -> R) -> R {
        init();
        let ix = Instruction { program_id: whirlpool::ID, accounts: keys.iter().map(|k| solana_program::instruction::AccountMeta::new(*k, false)).collect(), data: vec![] };
        let mut ser = self.serialize(&ix);
        let p = ser.store.as_mut_ptr() as *mut u8;
        const UNINIT: core::mem::MaybeUninit<pinocchio::account_info::AccountInfo> = core::mem::MaybeUninit::uninit();
        let mut accounts = [UNINIT; 64];
        let (_pid, count, _data) = unsafe { pinocchio::entrypoint::deserialize::<64>(p, &mut accounts) };
        let parsed = unsafe { core::slice::from_raw_parts(accounts.as_ptr() as *const pinocchio::account_info::AccountInfo, count) };
        f(parsed)
    }

    pub fn fund(&mut self, k: Pubkey, lamports: u64) {
        self.accts.insert(k, Acct { lamports, data: vec![], owner: system_program::ID, executable: false });
    }
    pub fn program(&mut self, k: Pubkey) {
        self.accts.insert(k, Acct { lamports: 1, data: vec![], owner: Pubkey::new_from_array([7u8; 32]), executable: true });
    }
    pub fn install_builtin_accounts(&mut self) {
        for p in [system_program::ID, spl_token::ID, spl_token_2022::ID, spl_associated_token_account::ID, spl_memo::ID, whirlpool::ID, metadata_program_id()] {
            self.program(p);
        }
        let r = solana_program::rent::Rent::default();
        let mut d = vec![0u8; 17];
        d[0..8].copy_from_slice(&r.lamports_per_byte_year.to_le_bytes());
        d[8..16].copy_from_slice(&r.exemption_threshold.to_le_bytes());
        d[16] = r.burn_percent;
        self.accts.insert(sysvar::rent::ID, Acct { lamports: 1, data: d, owner: sysvar::ID, executable: false });
    }
}
