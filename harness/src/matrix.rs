//! `matrix` driver (C04, C15, and the instruction coverage of C18/C19): a prepared world with two
//! configs, several pools sharing mints, positions of every kind, rewards, adaptive-fee tiers,
//! token badges; a script of valid instructions; and, for each of them, probes executed on copies
//! of the bank: authority variants (C04) and single-slot account substitutions (C15).
//! The TLA+ module WpIface (in WpTrace) decides which probes must be rejected.
use crate::hist::{MAX_SQRT_PRICE, MIN_SQRT_PRICE};
use crate::project::{self, nu};
use crate::rec::{price_of, Recorder};
use crate::world::{Ix, PosKind, TokProg, World};
use crate::world2::AfConstants;
use rand::Rng;
use serde_json::{json, Value};
use solana_program::instruction::Instruction;
use solana_program::pubkey::Pubkey;

pub struct MatrixCfg {
    pub seed: u64,
    pub auth: bool,
    pub subst: bool,
    pub max_subst_per_slot: usize,
}

fn af_default() -> AfConstants {
    AfConstants { filter_period: 30, decay_period: 600, reduction_factor: 5000, adaptive_fee_control_factor: 4000, max_volatility_accumulator: 350_000, tick_group_size: 64, major_swap_threshold_ticks: 64 }
}

fn raw(name: &str, inst: Instruction, slots: &[&str], args: Value) -> Ix {
    Ix { name: name.into(), accts: "", metas: inst.accounts.clone(), extra: slots.iter().map(|s| s.to_string()).collect(), data: inst.data.clone(), args, program: inst.program_id }
}

pub fn build(seed: u64, rec: &mut Recorder) -> World {
    let mut w = World::new(seed);
    w.init_config("C1", 300);
    w.init_config("C2", 1000);
    // every authority recorded anywhere in the world is a different key (an instruction that consults the wrong
    // authority field then shows: the probes let each of them sign every privileged instruction)
    for u in ["U1", "U2", "U3", "mallory", "extAuthC1", "badgeAuthC1", "extAuthC2", "badgeAuthC2", "delAuthC1", "delAuthC2", "prAuthC1"] {
        w.add_user(u);
    }
    let keys = w.sorted_keys(6);
    for (i, n) in ["A", "B", "C", "R"].iter().enumerate() {
        w.add_mint_keyed(n, keys[i], TokProg::Spl, None);
    }
    w.add_mint_keyed("TA", keys[4], TokProg::T22, Some((100, 1_000_000)));
    w.add_mint_keyed("TB", keys[5], TokProg::T22, None);
    let users = ["U1", "U2", "U3", "mallory", "feeAuthC1", "collectAuthC1", "rewardAuthC1", "feeAuthC2", "collectAuthC2", "rewardAuthC2"];
    for u in users {
        for m in ["A", "B", "C", "R", "TA", "TB"] {
            let amt = if u.starts_with('U') || u == "mallory" { 1u64 << 50 } else { 0 };
            w.user_token(u, m, amt);
        }
    }
    for (cfg, sp) in [("C1", 64u16), ("C1", 128), ("C2", 64)] {
        let ix = w.ix_init_fee_tier(cfg, sp, 3000);
        w.must_ix(&ix);
    }
    let p0 = price_of(0);
    for (name, cfg, a, b, sp, v2) in [("P1", "C1", "A", "B", 64u16, false), ("P2", "C1", "B", "C", 64, false), ("P3", "C1", "A", "B", 128, true), ("P4", "C2", "A", "B", 64, false), ("PT", "C1", "TA", "TB", 64, true)] {
        let ix = if v2 { w.ix_init_pool_v2(name, cfg, a, b, sp, p0) } else { w.ix_init_pool(name, cfg, a, b, sp, p0) };
        w.must_ix(&ix);
    }
    // adaptive fee tiers with the same index in both configs, and an adaptive pool
    let c = af_default();
    for cfg in ["C1", "C2"] {
        let ipa = Pubkey::default(); // permission-less pool initialization
        let del = w.users[&format!("delAuth{cfg}")];
        let ix = w.ix_init_adaptive_fee_tier(cfg, 1024, 64, ipa, del, 3000, &c);
        w.must_ix(&ix);
    }
    let funder = w.funder;
    let ix = w.ix_init_pool_adaptive("PA", "C1", "A", "C", 1024, 64, p0, funder, None);
    w.must_ix(&ix);
    let ix = w.ix_init_pool_adaptive("PB", "C2", "A", "C", 1024, 64, p0, funder, None);
    w.must_ix(&ix);
    // tick arrays (fixed and dynamic mixed)
    for (pool, dynamic) in [("P1", false), ("P2", true), ("P3", false), ("P4", true), ("PT", true), ("PA", false), ("PB", false)] {
        let span = w.pools[pool].spacing as i32 * 88;
        for (k, start) in [-span, 0, span].iter().enumerate() {
            let ix = w.ix_init_tick_array(pool, *start, dynamic ^ (k == 2));
            w.must_ix(&ix);
        }
    }
    // config extensions and token badges
    for cfg in ["C1", "C2"] {
        let ix = w.ix_init_config_extension(cfg);
        w.must_ix(&ix);
        let ix = w.ix_set_config_feature_flag(cfg, true);
        w.must_ix(&ix);
        // (both authorities of the extension default to the fee authority)
        let ix = w.ix_set_token_badge_authority(cfg, &format!("badgeAuth{cfg}"));
        w.must_ix(&ix);
        let ix = w.ix_set_config_extension_authority(cfg, &format!("extAuth{cfg}"));
        w.must_ix(&ix);
    }
    let ix = w.ix_init_token_badge("C1", "TA");
    w.must_ix(&ix);
    // positions of every kind with liquidity
    let mut open = |w: &mut World, pool: &str, owner: &str, lo: i32, up: i32, kind: PosKind, liq: u128| -> String {
        let (ix, info) = w.ix_open_position(pool, owner, lo, up, kind);
        w.must_ix(&ix);
        let n = info.name.clone();
        w.positions.insert(n.clone(), info);
        let v2 = w.pools[pool].v2;
        let ix = w.ix_increase(&n, owner, liq, u64::MAX, u64::MAX, v2);
        w.must_ix(&ix);
        n
    };
    open(&mut w, "P1", "U1", -128, 128, PosKind::Plain, 5_000_000_000); // X1
    open(&mut w, "P1", "U2", -640, 640, PosKind::TokenExt, 9_000_000_000); // X2
    open(&mut w, "P2", "U1", -128, 128, PosKind::Plain, 5_000_000_000); // X3
    open(&mut w, "P3", "U1", -256, 256, PosKind::Meta, 5_000_000_000); // X4
    open(&mut w, "P4", "U1", -128, 128, PosKind::Plain, 5_000_000_000); // X5
    open(&mut w, "PT", "U1", -128, 128, PosKind::TokenExt, 5_000_000_000); // X6
    open(&mut w, "PA", "U1", -1280, 1280, PosKind::TokenExt, 50_000_000_000); // X7
    open(&mut w, "PB", "U1", -1280, 1280, PosKind::Plain, 50_000_000_000); // X8
    // bundle with one bundled position
    let (ix, info) = w.ix_init_bundle("BU1", "U1");
    w.must_ix(&ix);
    w.bundles.insert("BU1".into(), info);
    let (ix, info) = w.ix_open_bundled_position("BU1", 3, "P1", -192, 192);
    w.must_ix(&ix);
    let xb = info.name.clone();
    w.positions.insert(xb.clone(), info);
    let ix = w.ix_increase(&xb, "U1", 1_000_000_000, u64::MAX, u64::MAX, false);
    w.must_ix(&ix);
    // X10: a position whose upper bound is exactly the first tick of a tick array (the array before it must not be accepted
    // for that bound); X11-X13: positions WITHOUT liquidity on three pools (an empty position of another pool is still foreign)
    open(&mut w, "P1", "U2", -128, 5632, PosKind::Plain, 2_000_000_000);
    for (pool, owner) in [("P2", "U2"), ("P3", "U2"), ("P1", "U1")] {
        let (ix, info) = w.ix_open_position(pool, owner, -256, 256, PosKind::Plain);
        w.must_ix(&ix);
        w.positions.insert(info.name.clone(), info);
    }
    // X14: the same on P2, whose array before that boundary is a DYNAMIC one
    open(&mut w, "P2", "U2", -128, 5632, PosKind::Plain, 2_000_000_000);
    // rewards: P1 index 0 (R), 1 (C) and 2 (R again: two reward slots of one pool over the SAME mint), P2 index 0 (R) and
    // 1 (B, the pool's own token A): a vault must be told from another by its address, not by its mint
    for (pool, idx, mint) in [("P1", 0u8, "R"), ("P1", 1, "C"), ("P1", 2, "R"), ("P2", 0, "R"), ("P2", 1, "B")] {
        let ix = w.ix_init_reward(pool, idx, mint, false);
        w.must_ix(&ix);
        let vault = w.pools[pool].rewards[idx as usize].1;
        let m = w.mints[mint].clone();
        w.must("fund reward vault", &spl_token::instruction::mint_to(&spl_token::ID, &m.key, &vault, &m.auth, &[], 1 << 45).unwrap());
        let ix = w.ix_set_reward_emissions(pool, idx, 1000u128 << 64, false);
        w.must_ix(&ix);
    }
    // the pools' own reward authority differs from the config's reward-emissions super authority it defaults to
    for pool in ["P1", "P2"] {
        let ix = w.ix_set_reward_authority(pool, 0, "prAuthC1");
        w.must_ix(&ix);
    }
    // some trading so that fees, protocol fees and rewards are owed
    w.set_now(w.now + 1000);
    for pool in ["P1", "P2", "P3", "P4", "PT", "PA", "PB"] {
        let v2 = w.pools[pool].v2 || w.pools[pool].adaptive;
        for a_to_b in [true, false] {
            let ix = w.ix_swap(pool, "U3", 3_000_000, 0, 0, true, a_to_b, v2);
            w.must_ix(&ix);
        }
    }
    for p in ["X1", "X2", "X3", "X6"] {
        let ix = w.ix_update_fees(p);
        w.must_ix(&ix);
    }
    rec.reset(&mut w, json!({"matrix": true, "seed": nu(seed as u128)}));
    w
}

/// id -> pubkey
fn key_of(w: &World, id: &str) -> Option<Pubkey> {
    if id == "prog:system" {
        return Some(solana_program::system_program::ID);
    }
    w.ids.iter().find(|(_, v)| v.as_str() == id).map(|(k, _)| *k)
}

fn section_of(proj: &Value, id: &str) -> Option<&'static str> {
    for s in project::SECTIONS {
        if *s == "oracle" || *s == "lock" {
            // keyed by pool / position id: look at the `key` field
            for (_, v) in proj[s].as_object().unwrap() {
                if v["key"] == id {
                    return Some(s);
                }
            }
        } else if proj[s].get(id).is_some() {
            return Some(s);
        }
    }
    None
}

fn ids_of_section(proj: &Value, s: &str) -> Vec<String> {
    if s == "oracle" || s == "lock" {
        proj[s].as_object().unwrap().values().map(|v| v["key"].as_str().unwrap().to_string()).collect()
    } else {
        proj[s].as_object().unwrap().keys().cloned().collect()
    }
}

/// Execute a probe on a copy of the bank; the spec state does not advance.
fn probe(w: &World, rec: &mut Recorder, ix: &Ix, variant: Value, setup: &[Instruction]) {
    let mut c = w.clone();
    let mut tag = variant;
    if !setup.is_empty() {
        for s in setup {
            let r = c.exec_raw(s);
            if !r.ok() {
                return; // the tweak itself is not applicable in this state
            }
        }
        let proj = c.project();
        tag["preDiff"] = project::diff(&c.last_proj, &proj);
        c.last_proj = proj;
    } else {
        tag["preDiff"] = json!("none");
    }
    tag["probe"] = json!(true);
    rec.exec(&mut c, ix, false, tag);
}

fn authority_slots(ix: &Ix) -> Vec<String> {
    ix.slot_names()
        .into_iter()
        .enumerate()
        .filter(|(i, n)| ix.metas[*i].is_signer && (n.contains("authority") || n == "position_bundle_owner"))
        .map(|(_, n)| n)
        .collect()
}

pub fn probes(w: &World, rec: &mut Recorder, ix: &Ix, cfg: &MatrixCfg, rng_salt: usize) {
    let names = ix.slot_names();
    if cfg.auth {
        for slot in authority_slots(ix) {
            // right key without a signature
            let mut v = ix.clone();
            v.set_signer(&slot, false);
            probe(w, rec, &v, json!({"kind": "auth", "slot": slot, "variant": "unsigned"}), &[]);
            // other keys, signed
            let right = ix.key(&slot);
            for other in ["mallory", "U2", "feeAuthC1", "collectAuthC1", "rewardAuthC1", "feeAuthC2", "collectAuthC2", "extAuthC1", "badgeAuthC1", "delAuthC1", "prAuthC1", "U3", "badgeAuthC2"] {
                let k = w.users[other];
                if k == right {
                    continue;
                }
                let mut v = ix.clone();
                v.set_key(&slot, k);
                probe(w, rec, &v, json!({"kind": "auth", "slot": slot, "variant": format!("other:{other}")}), &[]);
            }
        }
        // a coherent foreign authority: an account of another config / tier / pool together with an authority of the other config
        for slot in authority_slots(ix) {
            for (j, s2) in names.iter().enumerate() {
                if j >= ix.metas.len() || !["whirlpools_config", "config", "adaptive_fee_tier", "fee_tier", "whirlpools_config_extension", "whirlpool"].contains(&s2.as_str()) {
                    continue;
                }
                let cur = w.id(&ix.metas[j].pubkey);
                let sec = match section_of(&w.last_proj, &cur) {
                    Some(s) => s,
                    None => continue,
                };
                for cand in ids_of_section(&w.last_proj, sec).into_iter().filter(|c| *c != cur) {
                    for other in ["feeAuthC2", "collectAuthC2", "rewardAuthC2", "extAuthC2", "badgeAuthC2", "delAuthC2", "U3"] {
                        if let Some(k) = key_of(w, &cand) {
                            let mut v = ix.clone();
                            v.metas[j].pubkey = k;
                            v.set_key(&slot, w.users[other]);
                            probe(w, rec, &v, json!({"kind": "auth", "slot": slot, "variant": format!("foreign:{s2}={cand}:{other}")}), &[]);
                        }
                    }
                }
            }
        }
        // position-token delegation and ownership variants
        if let Some(i) = names.iter().position(|n| n == "position_token_account" || n == "position_bundle_token_account") {
            let auth_slot = if names[i] == "position_token_account" { "position_authority" } else if names.contains(&"position_bundle_authority".to_string()) { "position_bundle_authority" } else { "position_bundle_owner" };
            let ta = ix.metas[i].pubkey;
            if let Some(acct) = w.bank.accts.get(&ta) {
                let prog = acct.owner;
                if let Some((mint, owner, _, _, _, _, _)) = project::token_account_fields(&acct.data) {
                    let delegate = w.users["U2"];
                    for amt in [0u64, 1, 2] {
                        let approve = if prog == spl_token::ID { spl_token::instruction::approve(&prog, &ta, &delegate, &owner, &[], amt).unwrap() } else { spl_token_2022::instruction::approve(&prog, &ta, &delegate, &owner, &[], amt).unwrap() };
                        if names.contains(&auth_slot.to_string()) {
                            let mut v = ix.clone();
                            v.set_key(auth_slot, delegate);
                            probe(w, rec, &v, json!({"kind": "auth", "slot": auth_slot, "variant": format!("delegate:{amt}")}), &[approve.clone()]);
                            // while a delegate is approved, somebody who is neither the holder nor the delegate signs
                            let mut v = ix.clone();
                            v.set_key(auth_slot, w.users["U3"]);
                            probe(w, rec, &v, json!({"kind": "auth", "slot": auth_slot, "variant": format!("stranger_while_delegated:{amt}")}), &[approve]);
                        }
                    }
                    // the token moved to somebody else's account: the old (now empty) account no longer authorises
                    let dest_owner = w.users["U3"];
                    let ata = spl_associated_token_account::get_associated_token_address_with_program_id(&dest_owner, &mint, &prog);
                    let create = spl_associated_token_account::instruction::create_associated_token_account_idempotent(&w.funder, &dest_owner, &mint, &prog);
                    let xfer = if prog == spl_token::ID { spl_token::instruction::transfer(&prog, &ta, &ata, &owner, &[], 1).unwrap() } else {
                        #[allow(deprecated)]
                        spl_token_2022::instruction::transfer(&prog, &ta, &ata, &owner, &[], 1).unwrap()
                    };
                    if names.contains(&auth_slot.to_string()) {
                        let mut c = w.clone();
                        c.reg(ata, &format!("ata:U3:{}", c.id(&mint)));
                        probe(&c, rec, ix, json!({"kind": "auth", "slot": auth_slot, "variant": "empty_token_account"}), &[create, xfer]);
                    }
                    // a look-alike of the position token account that no token program owns: the same bytes (owner field:
                    // the attacker, amount 1) under a foreign program whose id shares the last byte with the real token
                    // program's (the Pinocchio loader dispatches on that byte), presented with the attacker as signer
                    if names.contains(&auth_slot.to_string()) {
                        let mut c = w.clone();
                        let attacker = c.users["mallory"];
                        let mut fake_prog = [0x44u8; 32];
                        fake_prog[31] = prog.to_bytes()[31];
                        let fake_prog = solana_program::pubkey::Pubkey::new_from_array(fake_prog);
                        let forged = c.new_key("forged:position_token_account");
                        let mut data = acct.data.clone();
                        data[32..64].copy_from_slice(attacker.as_ref());
                        c.reg(fake_prog, "prog:lookalike");
                        c.bank.accts.insert(forged, crate::svm::Acct { lamports: acct.lamports, data, owner: fake_prog, executable: false });
                        let proj = c.project();
                        let pre = project::diff(&c.last_proj, &proj);
                        c.last_proj = proj;
                        let mut v = ix.clone();
                        v.set_key(&names[i], forged);
                        v.set_key(auth_slot, attacker);
                        let mut tag = json!({"kind": "auth", "slot": auth_slot, "variant": "forged_token_account", "probe": true});
                        tag["preDiff"] = pre;
                        rec.exec(&mut c, &v, false, tag);
                    }
                }
            }
        }
    }
    if cfg.subst {
        // a coherent FOREIGN POSITION: position, its token account (and mint) and its owner's signature replaced together by
        // another position's - the attacker's own, legitimately held position, of this or of another pool
        if names.contains(&"position".to_string()) && names.contains(&"position_token_account".to_string()) && names.contains(&"position_authority".to_string()) {
            let cur = ix.key("position");
            let others: Vec<crate::world::PosInfo> = w.positions.values().filter(|q| q.key != cur && q.bundle.is_none() && w.bank.accts.contains_key(&q.key)).cloned().collect();
            for q in others {
                let mut v = ix.clone();
                v.set_key("position", q.key);
                v.set_key("position_token_account", q.token_account);
                v.set_key("position_authority", w.users[&q.owner]);
                if names.contains(&"position_mint".to_string()) {
                    v.set_key("position_mint", q.mint);
                }
                probe(w, rec, &v, json!({"kind": "subst", "slot": "position+token_account+authority", "orig": w.id(&cur), "with": format!("pos:{}", q.name)}), &[]);
            }
        }
        let proj = &w.last_proj;
        let mut rng = rand_chacha::ChaCha8Rng::seed_from_u64(cfg.seed.wrapping_add(rng_salt as u64));
        use rand::SeedableRng;
        for (i, slot) in names.iter().enumerate() {
            if i >= ix.metas.len() {
                break;
            }
            let cur = if ix.metas[i].pubkey == solana_program::system_program::ID { "prog:system".to_string() } else { w.id(&ix.metas[i].pubkey) };
            let mut cands: Vec<String> = vec![];
            if cur.starts_with("prog:") {
                cands = ["prog:token", "prog:token2022", "prog:memo", "prog:system", "prog:ata", "prog:metadata", "user:mallory"].iter().map(|s| s.to_string()).filter(|s| *s != cur).collect();
            } else if let Some(sec) = section_of(proj, &cur) {
                cands = ids_of_section(proj, sec).into_iter().filter(|c| *c != cur).collect();
                // an account of a different type as well
                cands.push("user:mallory".into());
            }
            // deterministic sample: half of the budget goes to the candidates MOST SIMILAR to the right account (same mint,
            // same owner, same pool ... - counted as equal fields of the projected records: the ones an instruction is most
            // likely to confuse it with), the other half is drawn at random
            if cands.len() > cfg.max_subst_per_slot {
                let rec_of = |id: &str| -> Option<&serde_json::Map<String, Value>> { section_of(proj, id).and_then(|sec| proj[sec][id].as_object()) };
                let mut keep: Vec<String> = vec![];
                if let Some(me) = rec_of(&cur) {
                    let mut scored: Vec<(usize, String)> = cands
                        .iter()
                        .map(|c| {
                            // fields that say WHOSE account it is weigh ten times the descriptive ones
                            let score = rec_of(c)
                                .map(|o| o.iter().filter(|(k, v)| me.get(*k) == Some(*v)).map(|(k, _)| if ["pool", "mint", "owner", "cfg", "prog", "delegate", "start"].contains(&k.as_str()) { 10 } else { 1 }).sum::<usize>())
                                .unwrap_or(0);
                            (score, c.clone())
                        })
                        .collect();
                    scored.sort_by(|a, b| b.0.cmp(&a.0).then(a.1.cmp(&b.1)));
                    keep = scored.into_iter().take(cfg.max_subst_per_slot / 2).map(|x| x.1).collect();
                }
                cands.retain(|c| !keep.contains(c));
                while cands.len() + keep.len() > cfg.max_subst_per_slot && !cands.is_empty() {
                    let k = rng.gen_range(0..cands.len());
                    cands.swap_remove(k);
                }
                cands.extend(keep);
            }
            for cand in cands {
                if let Some(k) = key_of(w, &cand) {
                    let mut v = ix.clone();
                    v.metas[i].pubkey = k;
                    probe(w, rec, &v, json!({"kind": "subst", "slot": slot, "orig": cur, "with": cand}), &[]);
                }
            }
        }
    }
}

/// run probes, then the base instruction for real (it must succeed)
fn step(w: &mut World, rec: &mut Recorder, cfg: &MatrixCfg, n: &mut usize, ix: Ix) -> bool {
    *n += 1;
    probes(w, rec, &ix, cfg, *n);
    let ex = rec.exec(w, &ix, true, json!({"kind": "base", "probe": false, "preDiff": "none"}));
    ex.ok()
}

/// C19: setters and initialisers with argument values at, just inside, just outside their bounds and at the type maximum.
fn bounds_probes(w: &mut World, rec: &mut Recorder) {
    let tag = |what: &str, v: u64| json!({"probe": true, "kind": "bounds", "what": what, "value": v});
    for v in [0u16, 59_999, 60_000, 60_001, u16::MAX] {
        let ix = w.ix_set_fee_rate("P1", v);
        probe_ix(w, rec, &ix, tag("set_fee_rate", v as u64));
        let ix = w.ix_set_default_fee_rate("C1", 64, v);
        probe_ix(w, rec, &ix, tag("set_default_fee_rate", v as u64));
        let ix = w.ix_set_default_base_fee_rate("C1", 1024, v);
        probe_ix(w, rec, &ix, tag("set_default_base_fee_rate", v as u64));
        let d = w.pool_fee_tier_delegate("PA");
        let ix = w.ix_set_fee_rate_by_delegated("PA", d, v);
        probe_ix(w, rec, &ix, tag("set_fee_rate_by_delegated", v as u64));
        let mut c = w.clone();
        let ix = c.ix_init_fee_tier("C1", 2 + (v % 7), v);
        probe_ix(&c, rec, &ix, tag("initialize_fee_tier", v as u64));
        let mut c = w.clone();
        let f = c.funder;
        let ix = c.ix_init_adaptive_fee_tier("C1", 3000 + (v % 7), 64, f, f, v, &af_default());
        probe_ix(&c, rec, &ix, tag("initialize_adaptive_fee_tier", v as u64));
    }
    for v in [0u16, 2_499, 2_500, 2_501, u16::MAX] {
        let ix = w.ix_set_protocol_fee_rate("P1", v);
        probe_ix(w, rec, &ix, tag("set_protocol_fee_rate", v as u64));
        let ix = w.ix_set_default_protocol_fee_rate("C1", v);
        probe_ix(w, rec, &ix, tag("set_default_protocol_fee_rate", v as u64));
    }
    // tick spacing 0 and price bounds at pool creation
    {
        let mut c = w.clone();
        let ix = c.ix_init_fee_tier("C1", 0, 100);
        probe_ix(&c, rec, &ix, tag("initialize_fee_tier_spacing0", 0));
    }
    for (i, p) in [MIN_SQRT_PRICE - 1, MIN_SQRT_PRICE, MAX_SQRT_PRICE, MAX_SQRT_PRICE + 1, 0, u128::MAX].iter().enumerate() {
        let mut c = w.clone();
        let ix = c.ix_init_pool_v2(&format!("PB{i}"), "C1", "A", "R", 64, *p);
        probe_ix(&c, rec, &ix, tag("initialize_pool_price", i as u64));
        // mints in the wrong (non-canonical) order
        let mut c = w.clone();
        let mut ix = c.ix_init_pool_v2(&format!("PR{i}"), "C1", "A", "R", 64, price_of(0));
        let (ka, kb) = (ix.key("token_mint_a"), ix.key("token_mint_b"));
        ix.set_key("token_mint_a", kb);
        ix.set_key("token_mint_b", ka);
        probe_ix(&c, rec, &ix, tag("initialize_pool_mint_order", i as u64));
    }
    // adaptive fee constants: each validity rule violated in turn (pool constants, preset constants, new tier)
    let good = af_default();
    let bad: Vec<AfConstants> = vec![
        AfConstants { filter_period: 0, ..good.clone() },
        AfConstants { decay_period: good.filter_period, ..good.clone() },
        AfConstants { decay_period: 0, ..good.clone() },
        AfConstants { reduction_factor: 10_000, ..good.clone() },
        AfConstants { adaptive_fee_control_factor: 100_000, ..good.clone() },
        AfConstants { max_volatility_accumulator: u32::MAX, ..good.clone() },
        AfConstants { tick_group_size: 0, ..good.clone() },
        AfConstants { tick_group_size: 48, ..good.clone() },
        AfConstants { tick_group_size: 128, ..good.clone() },
        AfConstants { major_swap_threshold_ticks: 0, ..good.clone() },
        AfConstants { major_swap_threshold_ticks: 64 * 88 + 1, ..good.clone() },
        AfConstants { reduction_factor: 9_999, adaptive_fee_control_factor: 99_999, tick_group_size: 1, major_swap_threshold_ticks: 64 * 88, max_volatility_accumulator: u32::MAX, ..good.clone() },
        AfConstants { reduction_factor: 9_999, adaptive_fee_control_factor: 99_999, tick_group_size: 64, major_swap_threshold_ticks: 1, max_volatility_accumulator: u32::MAX / 64, ..good.clone() },
    ];
    for (i, c_) in bad.iter().enumerate() {
        let ix = w.ix_set_adaptive_fee_constants("PA", c_, 127);
        probe_ix(w, rec, &ix, tag("set_adaptive_fee_constants", i as u64));
        let ix = w.ix_set_preset_adaptive_fee_constants("C1", 1024, c_);
        probe_ix(w, rec, &ix, tag("set_preset_adaptive_fee_constants", i as u64));
        let mut c = w.clone();
        let f = c.funder;
        let ix = c.ix_init_adaptive_fee_tier("C1", 4000 + i as u16, 64, f, f, 1000, c_);
        probe_ix(&c, rec, &ix, tag("initialize_adaptive_fee_tier_constants", i as u64));
    }
}

fn probe_ix(w: &World, rec: &mut Recorder, ix: &Ix, tag: Value) {
    let mut c = w.clone();
    rec.exec(&mut c, ix, false, tag);
}

pub fn run(cfg: &MatrixCfg, rec: &mut Recorder) {
    let mut w = build(cfg.seed, rec);
    let mut n = 0usize;
    let rng_amt = |w: &mut World, lo: u64, hi: u64| -> u64 { w.rng.gen_range(lo..hi) };
    // ---- liquidity, fees, rewards on plain / token-extension / bundled positions
    for (pos, user, v2) in [("X1", "U1", false), ("X2", "U2", true), ("X6", "U1", true), ("X9", "U1", false), ("X10", "U2", false), ("X10", "U2", true), ("X14", "U2", false), ("X14", "U2", true)] {
        let a = rng_amt(&mut w, 1_000_000, 9_000_000) as u128;
        { let ix = w.ix_increase(pos, user, a, u64::MAX, u64::MAX, v2); step(&mut w, rec, cfg, &mut n, ix); }
        { let ix = w.ix_decrease(pos, user, a / 2, 0, 0, v2); step(&mut w, rec, cfg, &mut n, ix); }
        { let ix = w.ix_collect_fees(pos, user, v2); step(&mut w, rec, cfg, &mut n, ix); }
    }
    { let ix = w.ix_increase_by_amounts("X2", "U2", 5_000_000, 5_000_000, MIN_SQRT_PRICE, MAX_SQRT_PRICE); step(&mut w, rec, cfg, &mut n, ix); }
    { let ix = w.ix_update_fees("X1"); step(&mut w, rec, cfg, &mut n, ix); }
    { let ix = w.ix_collect_reward("X1", "U1", 0, false); step(&mut w, rec, cfg, &mut n, ix); }
    { let ix = w.ix_collect_reward("X1", "U1", 1, true); step(&mut w, rec, cfg, &mut n, ix); }
    { let ix = w.ix_collect_reward("X1", "U1", 2, true); step(&mut w, rec, cfg, &mut n, ix); }
    { let ix = w.ix_collect_reward("X1", "U1", 2, false); step(&mut w, rec, cfg, &mut n, ix); }
    { let ix = w.ix_update_fees("X3"); step(&mut w, rec, cfg, &mut n, ix); }
    { let ix = w.ix_collect_reward("X3", "U1", 1, true); step(&mut w, rec, cfg, &mut n, ix); }
    { let ix = w.ix_collect_reward("X3", "U1", 1, false); step(&mut w, rec, cfg, &mut n, ix); }
    { let ix = w.ix_reposition("X2", "U2", -320, 320, 4_000_000_000, 0, 0, u64::MAX, u64::MAX); step(&mut w, rec, cfg, &mut n, ix); }
    // ... and one that only pays out (tiny new liquidity: both tokens flow from the vaults to the owner, so no token
    // transfer needs the owner's signature - the program's own authority check is all that stands)
    { let ix = w.ix_reposition("X2", "U2", -384, 384, 1, 0, 0, u64::MAX, u64::MAX); step(&mut w, rec, cfg, &mut n, ix); }
    { let ix = w.ix_reposition("X2", "U2", -320, 320, 3_000_000_000, 0, 0, u64::MAX, u64::MAX); step(&mut w, rec, cfg, &mut n, ix); }
    // an EMPTY position is given liquidity by a reposition (nothing to withdraw from the old range)
    { let ix = w.ix_reposition("X13", "U1", -192, 320, 1_000_000, 0, 0, u64::MAX, u64::MAX); step(&mut w, rec, cfg, &mut n, ix); }
    // ---- swaps
    for (pool, v2) in [("P1", false), ("P1", true), ("PT", true), ("PA", true)] {
        { let ix = w.ix_swap(pool, "U3", 1_000_000, 0, 0, true, true, v2); step(&mut w, rec, cfg, &mut n, ix); }
        { let ix = w.ix_swap(pool, "U3", 500_000, u64::MAX, 0, false, false, v2); step(&mut w, rec, cfg, &mut n, ix); }
    }
    { let ix = w.ix_two_hop("P1", "P2", "U3", 1_000_000, 0, true, true, true, 0, 0, false); step(&mut w, rec, cfg, &mut n, ix); }
    { let ix = w.ix_two_hop("P1", "P2", "U3", 1_000_000, 0, true, true, true, 0, 0, true); step(&mut w, rec, cfg, &mut n, ix); }
    // ---- protocol fees
    { let ix = w.ix_collect_protocol_fees("P1", "collectAuthC1", false); step(&mut w, rec, cfg, &mut n, ix); }
    { let ix = w.ix_collect_protocol_fees("PT", "collectAuthC1", true); step(&mut w, rec, cfg, &mut n, ix); }
    // ---- rewards administration
    { let ix = w.ix_set_reward_emissions("P1", 0, 500u128 << 64, false); step(&mut w, rec, cfg, &mut n, ix); }
    { let ix = w.ix_set_reward_emissions("P2", 0, 700u128 << 64, true); step(&mut w, rec, cfg, &mut n, ix); }
    let ix = w.ix_init_reward("P2", 2, "C", true);
    if step(&mut w, rec, cfg, &mut n, ix) {
        // funded: a reward vault over the pool's own token B, owned by the pool - the one account a transfer from "vault B"
        // would also succeed from
        let vault = w.pools["P2"].rewards[2].1;
        let mi = w.mints["C"].clone();
        w.must("fund reward vault", &spl_token::instruction::mint_to(&spl_token::ID, &mi.key, &vault, &mi.auth, &[], 1 << 45).unwrap());
        let mut ww = w.clone();
        rec.reset(&mut ww, json!({"resume": true}));
        w.last_proj = ww.last_proj.clone();
    }
    { let ix = w.ix_set_reward_authority("P1", 0, "U3"); step(&mut w, rec, cfg, &mut n, ix); }
    { let ix = w.ix_set_reward_authority_by_super("P1", 0, "rewardAuthC1"); step(&mut w, rec, cfg, &mut n, ix); }
    // ---- pool / tier / config settings
    { let ix = w.ix_set_fee_rate("P1", 5000); step(&mut w, rec, cfg, &mut n, ix); }
    { let ix = w.ix_set_protocol_fee_rate("P1", 700); step(&mut w, rec, cfg, &mut n, ix); }
    { let ix = w.ix_set_default_fee_rate("C1", 64, 2500); step(&mut w, rec, cfg, &mut n, ix); }
    { let ix = w.ix_set_default_protocol_fee_rate("C1", 500); step(&mut w, rec, cfg, &mut n, ix); }
    let ix = w.ix_init_fee_tier("C1", 8, 500);
    step(&mut w, rec, cfg, &mut n, ix);
    // ---- adaptive fee settings
    let c2 = AfConstants { filter_period: 20, ..af_default() };
    { let ix = w.ix_set_adaptive_fee_constants("PA", &c2, 1); step(&mut w, rec, cfg, &mut n, ix); }
    { let ix = w.ix_set_default_base_fee_rate("C1", 1024, 2000); step(&mut w, rec, cfg, &mut n, ix); }
    { let ix = w.ix_set_preset_adaptive_fee_constants("C1", 1024, &c2); step(&mut w, rec, cfg, &mut n, ix); }
    let del = w.users["delAuthC1"];
    { let ix = w.ix_set_fee_rate_by_delegated("PA", del, 4000); step(&mut w, rec, cfg, &mut n, ix); }
    { let ix = w.ix_set_delegated_fee_authority("C1", 1024, "U3"); step(&mut w, rec, cfg, &mut n, ix); }
    { let ix = w.ix_set_initialize_pool_authority("C1", 1024, "U3"); step(&mut w, rec, cfg, &mut n, ix); }
    let u3 = w.users["U3"];
    let c3 = af_default();
    let ix = w.ix_init_adaptive_fee_tier("C1", 2048, 128, u3, u3, 1000, &c3);
    step(&mut w, rec, cfg, &mut n, ix);
    let ix = w.ix_init_pool_adaptive("PC", "C1", "B", "C", 1024, 64, price_of(100), u3, None);
    step(&mut w, rec, cfg, &mut n, ix);
    // ---- token badges / config extension
    let ix = w.ix_init_token_badge("C1", "TB");
    step(&mut w, rec, cfg, &mut n, ix);
    { let ix = w.ix_set_token_badge_attribute("C1", "TB", true); step(&mut w, rec, cfg, &mut n, ix); }
    { let ix = w.ix_delete_token_badge("C1", "TB"); step(&mut w, rec, cfg, &mut n, ix); }
    { let ix = w.ix_set_token_badge_authority("C1", "U3"); step(&mut w, rec, cfg, &mut n, ix); }
    { let ix = w.ix_set_config_extension_authority("C1", "U3"); step(&mut w, rec, cfg, &mut n, ix); }
    { let ix = w.ix_set_config_feature_flag("C1", false); step(&mut w, rec, cfg, &mut n, ix); }
    { let ix = w.ix_set_config_feature_flag("C1", true); step(&mut w, rec, cfg, &mut n, ix); }
    // ---- position life cycle: lock / transfer locked / close / reset range / bundles
    let ix = w.ix_lock_position("X6", "U1");
    step(&mut w, rec, cfg, &mut n, ix);
    let (ix, dest) = w.ix_transfer_locked("X6", "U1", "U2");
    {
        // destination ATA of the receiver must exist
        let x = w.positions["X6"].clone();
        let create = spl_associated_token_account::instruction::create_associated_token_account_idempotent(&w.funder, &w.users["U2"], &x.mint, &spl_token_2022::ID);
        w.reg(dest, "posta2:X6");
        let ixc = raw("ata_create", create, &["funder", "ata", "owner", "mint", "system_program", "token_program"], json!({}));
        rec.exec(&mut w, &ixc, true, json!({"kind": "setup", "probe": false, "preDiff": "none"}));
    }
    step(&mut w, rec, cfg, &mut n, ix);
    // empty X3 and close it; empty X5, reset its range
    for (pos, user) in [("X3", "U1"), ("X5", "U1")] {
        let (l, _, _) = w.pos_range(pos).unwrap();
        { let ix = w.ix_decrease(pos, user, l, 0, 0, false); step(&mut w, rec, cfg, &mut n, ix); }
        { let ix = w.ix_collect_fees(pos, user, false); step(&mut w, rec, cfg, &mut n, ix); }
    }
    { let ix = w.ix_collect_reward("X3", "U1", 0, false); step(&mut w, rec, cfg, &mut n, ix); }
    { let ix = w.ix_collect_reward("X3", "U1", 1, false); step(&mut w, rec, cfg, &mut n, ix); }
    { let ix = w.ix_close_position("X3", "U1"); step(&mut w, rec, cfg, &mut n, ix); }
    { let ix = w.ix_reset_range("X5", "U1", -256, 256); step(&mut w, rec, cfg, &mut n, ix); }
    // bundled position: empty, close, delete bundle
    let (l, _, _) = w.pos_range("X9").unwrap();
    { let ix = w.ix_decrease("X9", "U1", l, 0, 0, false); step(&mut w, rec, cfg, &mut n, ix); }
    { let ix = w.ix_collect_fees("X9", "U1", false); step(&mut w, rec, cfg, &mut n, ix); }
    { let ix = w.ix_collect_reward("X9", "U1", 0, false); step(&mut w, rec, cfg, &mut n, ix); }
    { let ix = w.ix_collect_reward("X9", "U1", 1, false); step(&mut w, rec, cfg, &mut n, ix); }
    { let ix = w.ix_collect_reward("X9", "U1", 2, false); step(&mut w, rec, cfg, &mut n, ix); }
    let (ix, info) = w.ix_open_bundled_position("BU1", 7, "P2", -128, 128);
    if step(&mut w, rec, cfg, &mut n, ix) {
        w.positions.insert(info.name.clone(), info.clone());
        { let ix = w.ix_close_bundled_position(&info.name); step(&mut w, rec, cfg, &mut n, ix); }
    }
    { let ix = w.ix_close_bundled_position("X9"); step(&mut w, rec, cfg, &mut n, ix); }
    { let ix = w.ix_delete_bundle("BU1"); step(&mut w, rec, cfg, &mut n, ix); }
    // ---- C19: every setter with values around its bound (probes on copies)
    bounds_probes(&mut w, rec);
    // authority rotations last (they change who the right signer is)
    { let ix = w.ix_set_collect_protocol_fees_authority("C1", "U3"); step(&mut w, rec, cfg, &mut n, ix); }
    { let ix = w.ix_set_reward_emissions_super_authority("C1", "U3"); step(&mut w, rec, cfg, &mut n, ix); }
    { let ix = w.ix_set_fee_authority("C1", "U3"); step(&mut w, rec, cfg, &mut n, ix); }
    // after the rotation the new authority is the right signer and the old one is not
    w.cfgs.get_mut("C1").unwrap().fee_auth = "U3".into();
    w.cfgs.get_mut("C1").unwrap().collect_auth = "U3".into();
    { let ix = w.ix_set_fee_rate("P2", 1000); step(&mut w, rec, cfg, &mut n, ix); }
    { let ix = w.ix_collect_protocol_fees("P2", "U3", false); step(&mut w, rec, cfg, &mut n, ix); }
    // ---- C19: a config created with an out-of-bound default protocol fee rate must not lead to a pool carrying that rate
    for rate in [2_500u16, 2_501, u16::MAX] {
        let mut c = w.clone();
        rec.reset(&mut c, json!({"scenario": "config_default_protocol_fee_rate", "rate": rate}));
        let cname = format!("CB{rate}");
        let (ix, info) = c.ix_init_config(&cname, rate);
        if !rec.exec(&mut c, &ix, rate <= 2_500, json!(null)).ok() {
            continue;
        }
        c.cfgs.insert(cname.clone(), info);
        let ix = c.ix_init_fee_tier(&cname, 64, 3000);
        if !rec.exec(&mut c, &ix, false, json!(null)).ok() {
            continue;
        }
        let ix = c.ix_init_pool(&format!("PB{rate}"), &cname, "A", "B", 64, price_of(0));
        rec.exec(&mut c, &ix, false, json!(null));
        let ix = c.ix_init_pool_v2(&format!("PV{rate}"), &cname, "B", "C", 64, price_of(0));
        rec.exec(&mut c, &ix, false, json!(null));
    }
    rec.flush();
}
