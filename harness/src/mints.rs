//! `mints` driver (C19): Token-2022 mint shapes enumerated by TLC (MintAdmissionModel) are built as
//! real mint accounts and offered to initialize_pool_v2 / initialize_pool_with_adaptive_fee /
//! initialize_reward_v2 (executed for real: the vault creation goes through the Token-2022 processor).
use crate::project::nu;
use crate::rec::{price_of, Recorder};
use crate::svm::{self, Acct};
use crate::world::{PosKind, TokProg, World};
use crate::world2::AfConstants;
use rand::{Rng, SeedableRng};
use serde_json::{json, Value};
use solana_program::pubkey::Pubkey;
use std::io::BufRead;

fn body_len(t: u16) -> usize {
    match t {
        1 => 108,
        2 => 8,
        3 => 32,
        4 => 65,
        6 => 1,
        9 => 0,
        10 => 52,
        12 => 32,
        14 => 64,
        16 => 129,
        18 => 64,
        19 => 80,
        20 => 64,
        25 => 56,
        26 => 33,
        _ => 8,
    }
}

pub fn mint_bytes(exts: &[u16], freeze: Option<Pubkey>, dstate: u8, trunc: bool, auth: &Pubkey) -> Vec<u8> {
    let mut d = vec![0u8; 82];
    d[0..4].copy_from_slice(&1u32.to_le_bytes());
    d[4..36].copy_from_slice(auth.as_ref());
    d[44] = 6;
    d[45] = 1;
    if let Some(f) = freeze {
        d[46..50].copy_from_slice(&1u32.to_le_bytes());
        d[50..82].copy_from_slice(f.as_ref());
    }
    if exts.is_empty() {
        // a token-2022 mint without extensions has the plain 82-byte layout
        return d;
    }
    d.resize(165, 0);
    d.push(1);
    for (i, t) in exts.iter().enumerate() {
        let mut len = body_len(*t);
        d.extend_from_slice(&t.to_le_bytes());
        let last = i + 1 == exts.len();
        if trunc && last {
            // the declared length runs past the end of the account
            d.extend_from_slice(&((len + 40) as u16).to_le_bytes());
        } else {
            d.extend_from_slice(&(len as u16).to_le_bytes());
        }
        let mut body = vec![0u8; len];
        if *t == 6 && len == 1 {
            body[0] = dstate;
        }
        if *t == 19 {
            // borsh TokenMetadata: update_authority, mint, name, symbol, uri (empty strings), additional_metadata (empty)
            len = 80;
            body = vec![0u8; len];
        }
        d.extend(body);
    }
    d
}

pub fn run(seed: u64, cases_file: &str, sample: usize, rec: &mut Recorder) {
    let f = std::io::BufReader::new(std::fs::File::open(cases_file).expect("cases file"));
    let mut cases: Vec<Value> = vec![];
    for line in f.lines() {
        let line = line.unwrap();
        if let Some(i) = line.find("REPLAY ") {
            let raw = line[i + 7..].trim().trim_end_matches('"').replace("\\\"", "\"");
            cases.push(serde_json::from_str(&raw).expect("case json"));
        }
    }
    let mut r = rand_chacha::ChaCha8Rng::seed_from_u64(seed);
    // ---- the world
    let mut w = World::new(seed);
    w.init_config("C1", 300);
    w.init_config("C2", 300);
    for u in ["U1"] {
        w.add_user(u);
    }
    let keys = w.sorted_keys(3);
    w.add_mint_keyed("M0", keys[1], TokProg::Spl, None);
    w.add_mint_keyed("M1", keys[2], TokProg::Spl, None);
    for m in ["M0", "M1"] {
        w.user_token("U1", m, 1 << 50);
    }
    for cfg in ["C1", "C2"] {
        let ix = w.ix_init_fee_tier(cfg, 64, 3000);
        w.must_ix(&ix);
        let ix = w.ix_init_config_extension(cfg);
        w.must_ix(&ix);
        let ix = w.ix_set_config_feature_flag(cfg, true);
        w.must_ix(&ix);
        let c = AfConstants { filter_period: 30, decay_period: 600, reduction_factor: 5000, adaptive_fee_control_factor: 4000, max_volatility_accumulator: 350_000, tick_group_size: 64, major_swap_threshold_ticks: 64 };
        let ix = w.ix_init_adaptive_fee_tier(cfg, 1024, 64, Pubkey::default(), Pubkey::default(), 3000, &c);
        w.must_ix(&ix);
    }
    let ix = w.ix_init_pool("P1", "C1", "M0", "M1", 64, price_of(0));
    w.must_ix(&ix);
    rec.reset(&mut w, json!({"mints": true, "seed": nu(seed as u128)}));
    let n = cases.len();
    let chosen: Vec<usize> = if sample >= n { (0..n).collect() } else { (0..sample).map(|_| r.gen_range(0..n)).collect() };
    for (ci, idx) in chosen.iter().enumerate() {
        let c = &cases[*idx];
        let exts: Vec<u16> = c["exts"].as_array().unwrap().iter().map(|x| x.as_u64().unwrap() as u16).collect();
        let freeze = c["freeze"].as_bool().unwrap();
        let dstate = c["dstate"].as_u64().unwrap() as u8;
        let trunc = c["trunc"].as_bool().unwrap();
        let badge = c["badge"].as_str().unwrap().to_string();
        // the mint under test: a fresh key on either side of M0 in the canonical order
        let mut cw = w.clone();
        let name = format!("X{ci}");
        let mut kb = [0u8; 32];
        cw.rng.fill(&mut kb);
        let key = Pubkey::new_from_array(kb);
        let fauth = cw.users["U1"];
        let data = mint_bytes(&exts, if freeze { Some(fauth) } else { None }, dstate, trunc, &cw.admin);
        cw.reg(key, &format!("mint:{name}"));
        cw.bank.accts.insert(key, Acct { lamports: svm::rent_min(data.len()), data, owner: spl_token_2022::ID, executable: false });
        cw.mints.insert(name.clone(), crate::world::MintInfo { key, prog: TokProg::T22, auth: cw.admin, fee_bps: 0, fee_max: 0 });
        // another mint for the "otherMint" badge
        let mut yb = [0u8; 32];
        cw.rng.fill(&mut yb);
        let ykey = Pubkey::new_from_array(yb);
        cw.reg(ykey, &format!("mint:Y{ci}"));
        let ydata = mint_bytes(&[], None, 1, false, &cw.admin);
        cw.bank.accts.insert(ykey, Acct { lamports: svm::rent_min(ydata.len()), data: ydata, owner: spl_token_2022::ID, executable: false });
        cw.mints.insert(format!("Y{ci}"), crate::world::MintInfo { key: ykey, prog: TokProg::T22, auth: cw.admin, fee_bps: 0, fee_max: 0 });
        match badge.as_str() {
            "present" => {
                let ix = cw.ix_init_token_badge("C1", &name);
                cw.exec_raw(&ix.instruction());
            }
            "otherConfig" => {
                let ix = cw.ix_init_token_badge("C2", &name);
                cw.exec_raw(&ix.instruction());
            }
            "otherMint" => {
                let ix = cw.ix_init_token_badge("C1", &format!("Y{ci}"));
                cw.exec_raw(&ix.instruction());
            }
            "notOwned" => {
                // an account with the right bytes at the badge address, but not owned by the program
                let b = cw.badge_key("C1", &key);
                let mut d = vec![0u8; 8 + 32 + 32 + 1 + 128];
                use anchor_lang::Discriminator;
                d[..8].copy_from_slice(whirlpool::state::TokenBadge::DISCRIMINATOR);
                d[8..40].copy_from_slice(cw.cfgs["C1"].key.as_ref());
                d[40..72].copy_from_slice(key.as_ref());
                cw.reg(b, &format!("fakebadge:{name}"));
                cw.bank.accts.insert(b, Acct { lamports: svm::rent_min(d.len()), data: d, owner: solana_program::system_program::ID, executable: false });
            }
            _ => {}
        }
        let proj = cw.project();
        let pre_diff = crate::project::diff(&cw.last_proj, &proj);
        cw.last_proj = proj;
        let (a, b) = if key < cw.mints["M0"].key { (name.clone(), "M0".to_string()) } else { ("M0".to_string(), name.clone()) };
        let tag = |what: &str| json!({"probe": true, "preDiff": pre_diff.clone(), "mintCase": {"exts": exts, "freeze": freeze, "dstate": dstate, "trunc": trunc, "badge": badge, "what": what}});
        // (1) initialize_pool_v2
        {
            let mut c1 = cw.clone();
            let ix = c1.ix_init_pool_v2(&format!("PX{ci}"), "C1", &a, &b, 64, price_of(0));
            rec.exec(&mut c1, &ix, false, tag("pool_v2"));
        }
        // (2) initialize_pool_with_adaptive_fee
        if ci % 3 == 0 {
            let mut c1 = cw.clone();
            let f = c1.funder;
            let ix = c1.ix_init_pool_adaptive(&format!("PA{ci}"), "C1", &a, &b, 1024, 64, price_of(0), f, None);
            rec.exec(&mut c1, &ix, false, tag("pool_adaptive"));
        }
        // (3) initialize_reward_v2 with the mint as reward mint
        if ci % 3 != 1 {
            let mut c1 = cw.clone();
            let ix = c1.ix_init_reward("P1", 0, &name, true);
            rec.exec(&mut c1, &ix, false, tag("reward_v2"));
        }
        // (4) the v1 instructions must not accept a token-2022 mint at all
        if ci % 5 == 0 {
            let mut c1 = cw.clone();
            let ix = c1.ix_init_pool(&format!("PV{ci}"), "C1", &a, &b, 64, price_of(0));
            rec.exec(&mut c1, &ix, false, tag("pool_v1"));
            let mut c1 = cw.clone();
            let ix = c1.ix_init_reward("P1", 0, &name, false);
            rec.exec(&mut c1, &ix, false, tag("reward_v1"));
        }
    }
    let _ = PosKind::Plain;
    rec.flush();
}
