//! Projection of the bank onto the abstract state of the TLA+ specification (module Whirlpool).
//! Accounts are decoded by hand from their bytes (not through the program's deserialisers), so a
//! change in a codec of the program shows up as a change of the abstract state.
use crate::svm::Bank;
use anchor_lang::Discriminator;
use serde_json::{json, Map, Value};
use solana_program::pubkey::Pubkey;
use std::collections::BTreeMap;

/// JSON encoding of integers for TLC: plain number when it fits in 31 bits, decimal string otherwise.
pub fn nu(x: u128) -> Value {
    if x < (1u128 << 31) {
        json!(x as u64)
    } else {
        Value::String(x.to_string())
    }
}
pub fn ni(x: i128) -> Value {
    if x > -(1i128 << 31) && x < (1i128 << 31) {
        json!(x as i64)
    } else {
        Value::String(x.to_string())
    }
}

pub struct Rd<'a> {
    pub d: &'a [u8],
    pub o: usize,
}
impl<'a> Rd<'a> {
    pub fn new(d: &'a [u8], o: usize) -> Self {
        Rd { d, o }
    }
    pub fn take(&mut self, n: usize) -> &'a [u8] {
        let s = &self.d[self.o..self.o + n];
        self.o += n;
        s
    }
    pub fn u8(&mut self) -> u8 {
        self.take(1)[0]
    }
    pub fn u16(&mut self) -> u16 {
        u16::from_le_bytes(self.take(2).try_into().unwrap())
    }
    pub fn u32(&mut self) -> u32 {
        u32::from_le_bytes(self.take(4).try_into().unwrap())
    }
    pub fn i32(&mut self) -> i32 {
        i32::from_le_bytes(self.take(4).try_into().unwrap())
    }
    pub fn u64(&mut self) -> u64 {
        u64::from_le_bytes(self.take(8).try_into().unwrap())
    }
    pub fn u128(&mut self) -> u128 {
        u128::from_le_bytes(self.take(16).try_into().unwrap())
    }
    pub fn i128(&mut self) -> i128 {
        i128::from_le_bytes(self.take(16).try_into().unwrap())
    }
    pub fn key(&mut self) -> Pubkey {
        Pubkey::new_from_array(self.take(32).try_into().unwrap())
    }
}

pub type Ids = BTreeMap<Pubkey, String>;

pub fn idof(ids: &Ids, k: &Pubkey) -> String {
    // note: the all-zero key is both "no key" in account fields and the System program's address
    match ids.get(k) {
        Some(s) if *k != Pubkey::default() => s.clone(),
        _ if *k == Pubkey::default() => "none".to_string(),
        _ => format!("?{}", &k.to_string()[..8]),
    }
}

#[derive(Clone, Debug, Default)]
pub struct TickRec {
    pub init: bool,
    pub net: i128,
    pub gross: u128,
    pub fo_a: u128,
    pub fo_b: u128,
    pub ro: [u128; 3],
}
impl TickRec {
    pub fn is_zero(&self) -> bool {
        !self.init && self.net == 0 && self.gross == 0 && self.fo_a == 0 && self.fo_b == 0 && self.ro == [0; 3]
    }
}

pub fn decode_fixed_ticks(data: &[u8]) -> (i32, Pubkey, Vec<TickRec>) {
    let mut r = Rd::new(data, 8);
    let start = r.i32();
    let mut ticks = vec![];
    for _ in 0..88 {
        let init = r.u8() != 0;
        let net = r.i128();
        let gross = r.u128();
        let fo_a = r.u128();
        let fo_b = r.u128();
        let ro = [r.u128(), r.u128(), r.u128()];
        ticks.push(TickRec { init, net, gross, fo_a, fo_b, ro });
    }
    let wp = r.key();
    (start, wp, ticks)
}

/// Returns (start, whirlpool, bitmap, ticks, used_len, well_formed)
pub fn decode_dynamic_ticks(data: &[u8]) -> (i32, Pubkey, u128, Vec<TickRec>, usize, bool) {
    let mut r = Rd::new(data, 8);
    let start = r.i32();
    let wp = r.key();
    let bitmap = r.u128();
    let mut ticks = vec![];
    let mut ok = true;
    for i in 0..88 {
        if r.o >= data.len() {
            ok = false;
            ticks.push(TickRec::default());
            continue;
        }
        let tag = r.u8();
        if tag == 0 {
            ticks.push(TickRec::default());
            if (bitmap >> i) & 1 != 0 {
                ok = false;
            }
        } else {
            if tag != 1 || (bitmap >> i) & 1 != 1 || r.o + 112 > data.len() {
                ok = false;
            }
            if r.o + 112 > data.len() {
                ticks.push(TickRec::default());
                continue;
            }
            let net = r.i128();
            let gross = r.u128();
            let fo_a = r.u128();
            let fo_b = r.u128();
            let ro = [r.u128(), r.u128(), r.u128()];
            ticks.push(TickRec { init: true, net, gross, fo_a, fo_b, ro });
        }
    }
    let used = r.o;
    (start, wp, bitmap, ticks, used, ok)
}

fn tick_json(pool: &str, idx: i32, dynamic: bool, t: &TickRec) -> Value {
    json!({"pool": pool, "idx": idx, "init": t.init, "net": ni(t.net), "gross": nu(t.gross),
           "foA": nu(t.fo_a), "foB": nu(t.fo_b), "ro": [nu(t.ro[0]), nu(t.ro[1]), nu(t.ro[2])], "dyn": dynamic})
}

/// Token account / mint decoding (SPL layout; token-2022 shares the base layout).
pub fn token_account_fields(data: &[u8]) -> Option<(Pubkey, Pubkey, u64, Option<Pubkey>, u8, u64, Option<Pubkey>)> {
    if data.len() < 165 {
        return None;
    }
    let mut r = Rd::new(data, 0);
    let mint = r.key();
    let owner = r.key();
    let amount = r.u64();
    let dtag = r.u32();
    let dkey = r.key();
    let state = r.u8();
    let _native_tag = r.u32();
    let _native = r.u64();
    let delegated = r.u64();
    let ctag = r.u32();
    let ckey = r.key();
    Some((mint, owner, amount, if dtag == 1 { Some(dkey) } else { None }, state, delegated, if ctag == 1 { Some(ckey) } else { None }))
}

pub fn mint_fields(data: &[u8]) -> Option<(Option<Pubkey>, u64, u8, bool, Option<Pubkey>)> {
    if data.len() < 82 {
        return None;
    }
    let mut r = Rd::new(data, 0);
    let atag = r.u32();
    let akey = r.key();
    let supply = r.u64();
    let decimals = r.u8();
    let init = r.u8() != 0;
    let ftag = r.u32();
    let fkey = r.key();
    Some((if atag == 1 { Some(akey) } else { None }, supply, decimals, init, if ftag == 1 { Some(fkey) } else { None }))
}

/// Token-2022 TLV extension type numbers present in an account (mint: base 82, account: base 165).
pub fn t22_extension_types(data: &[u8]) -> Vec<u16> {
    let mut out = vec![];
    if data.len() <= 166 {
        return out;
    }
    let mut o = 166;
    while o + 4 <= data.len() {
        let t = u16::from_le_bytes(data[o..o + 2].try_into().unwrap());
        let l = u16::from_le_bytes(data[o + 2..o + 4].try_into().unwrap()) as usize;
        if t == 0 {
            break;
        }
        out.push(t);
        o += 4 + l;
    }
    out
}

/// (value of the DefaultAccountState extension or 1 = initialized, TLV walk ends cleanly)
pub fn t22_default_state_and_wf(data: &[u8]) -> (u8, bool) {
    let mut ds = 1u8;
    if data.len() <= 166 {
        return (ds, true);
    }
    let mut o = 166;
    loop {
        if o + 2 > data.len() {
            return (ds, true);
        }
        let t = u16::from_le_bytes(data[o..o + 2].try_into().unwrap());
        if t == 0 {
            return (ds, true);
        }
        if o + 4 > data.len() {
            return (ds, false);
        }
        let l = u16::from_le_bytes(data[o + 2..o + 4].try_into().unwrap()) as usize;
        if o + 4 + l > data.len() {
            return (ds, false);
        }
        if t == 6 && l >= 1 {
            ds = data[o + 4];
        }
        o += 4 + l;
    }
}

/// Transfer-fee config of a token-2022 mint: (older(epoch,max,bps), newer(epoch,max,bps))
pub fn t22_transfer_fee_config(data: &[u8]) -> Option<((u64, u64, u16), (u64, u64, u16))> {
    if data.len() <= 166 {
        return None;
    }
    let mut o = 166;
    while o + 4 <= data.len() {
        let t = u16::from_le_bytes(data[o..o + 2].try_into().unwrap());
        let l = u16::from_le_bytes(data[o + 2..o + 4].try_into().unwrap()) as usize;
        if t == 0 {
            break;
        }
        if t == 1 && o + 4 + l <= data.len() && l >= 108 {
            let mut r = Rd::new(data, o + 4);
            let _cfg_auth = r.key();
            let _wd_auth = r.key();
            let _withheld = r.u64();
            let older = (r.u64(), r.u64(), r.u16());
            let newer = (r.u64(), r.u64(), r.u16());
            return Some((older, newer));
        }
        o += 4 + l;
    }
    None
}

/// Full abstract state of the bank.
pub fn project(bank: &Bank, ids: &Ids) -> Value {
    let wp_id = whirlpool::ID;
    let mut pool = Map::new();
    let mut tick = Map::new();
    let mut ta = Map::new();
    let mut pos = Map::new();
    let mut tok = Map::new();
    let mut mint = Map::new();
    let mut oracle = Map::new();
    let mut cfg = Map::new();
    let mut tier = Map::new();
    let mut atier = Map::new();
    let mut badge = Map::new();
    let mut ext = Map::new();
    let mut bundle = Map::new();
    let mut lock = Map::new();
    let mut other = Map::new();
    let id = |k: &Pubkey| idof(ids, k);

    for (k, a) in bank.accts.iter() {
        if a.executable {
            continue;
        }
        let me = id(k);
        if a.owner == wp_id {
            if a.data.len() < 8 {
                other.insert(me, json!({"len": a.data.len()}));
                continue;
            }
            let d = &a.data[..8];
            if d == whirlpool::state::Whirlpool::DISCRIMINATOR {
                let mut r = Rd::new(&a.data, 8);
                let c = r.key();
                let _bump = r.u8();
                let spacing = r.u16();
                let seed = r.u16();
                let fee_rate = r.u16();
                let proto_rate = r.u16();
                let liq = r.u128();
                let sp = r.u128();
                let t = r.i32();
                let pa = r.u64();
                let pb = r.u64();
                let ma = r.key();
                let va = r.key();
                let fga = r.u128();
                let mb = r.key();
                let vb = r.key();
                let fgb = r.u128();
                let rts = r.u64();
                let mut rewards = vec![];
                let mut exts = vec![];
                for _ in 0..3 {
                    let m = r.key();
                    let v = r.key();
                    let e: [u8; 32] = r.take(32).try_into().unwrap();
                    let em = r.u128();
                    let g = r.u128();
                    rewards.push(json!({"init": m != Pubkey::default(), "mint": id(&m), "vault": id(&v), "emissions": nu(em), "growth": nu(g)}));
                    exts.push(e);
                }
                let flags = u16::from_le_bytes([exts[1][0], exts[1][1]]);
                pool.insert(me, json!({
                    "cfg": id(&c), "spacing": spacing, "tierIndex": seed, "feeRate": fee_rate, "protoRate": proto_rate,
                    "liq": nu(liq), "sqrtPrice": nu(sp), "tick": t, "protoA": nu(pa as u128), "protoB": nu(pb as u128),
                    "mintA": id(&ma), "vaultA": id(&va), "fgA": nu(fga), "mintB": id(&mb), "vaultB": id(&vb), "fgB": nu(fgb),
                    "rewardTs": nu(rts as u128), "rewards": rewards, "rewardAuth": id(&Pubkey::new_from_array(exts[0])),
                    "flags": flags, "ext2zero": exts[2] == [0u8; 32], "ext1rest": exts[1][2..] == [0u8; 30],
                    "oracleId": id(&Pubkey::find_program_address(&[b"oracle", k.as_ref()], &wp_id).0),
                    "mintsOrdered": ma < mb,
                    "len": a.data.len()
                }));
            } else if d == whirlpool::state::Position::DISCRIMINATOR {
                let mut r = Rd::new(&a.data, 8);
                let p = r.key();
                let m = r.key();
                let liq = r.u128();
                let lo = r.i32();
                let up = r.i32();
                let cpa = r.u128();
                let oa = r.u64();
                let cpb = r.u128();
                let ob = r.u64();
                let mut rw = vec![];
                for _ in 0..3 {
                    let cp = r.u128();
                    let o = r.u64();
                    rw.push(json!({"cp": nu(cp), "owed": nu(o as u128)}));
                }
                pos.insert(me, json!({"pool": id(&p), "mint": id(&m), "liq": nu(liq), "lo": lo, "up": up,
                    "cpA": nu(cpa), "owedA": nu(oa as u128), "cpB": nu(cpb), "owedB": nu(ob as u128), "rw": rw,
                    "lamports": nu(a.lamports as u128), "len": a.data.len()}));
            } else if d == whirlpool::state::FixedTickArray::DISCRIMINATOR {
                let (start, wp, ticks) = decode_fixed_ticks(&a.data);
                let p = id(&wp);
                ta.insert(me.clone(), json!({"pool": p, "start": start, "dyn": false, "len": a.data.len(), "wf": true, "ninit": ticks.iter().filter(|t| t.init).count(), "lamports": nu(a.lamports as u128)}));
                let spacing = pool_spacing(bank, &wp);
                for (i, t) in ticks.iter().enumerate() {
                    if !t.is_zero() {
                        let idx = start + (i as i32) * spacing as i32;
                        tick.insert(format!("{p}:{idx}"), tick_json(&p, idx, false, t));
                    }
                }
            } else if d == whirlpool::state::DynamicTickArray::DISCRIMINATOR {
                let (start, wp, bitmap, ticks, used, wf) = decode_dynamic_ticks(&a.data);
                let p = id(&wp);
                let ninit = ticks.iter().filter(|t| t.init).count();
                ta.insert(me.clone(), json!({"pool": p, "start": start, "dyn": true, "len": a.data.len(),
                    "wf": wf && used == a.data.len() && a.data.len() == 148 + 112 * ninit && bitmap.count_ones() as usize == ninit,
                    "ninit": ninit, "lamports": nu(a.lamports as u128)}));
                let spacing = pool_spacing(bank, &wp);
                for (i, t) in ticks.iter().enumerate() {
                    if !t.is_zero() {
                        let idx = start + (i as i32) * spacing as i32;
                        tick.insert(format!("{p}:{idx}"), tick_json(&p, idx, true, t));
                    }
                }
            } else if d == whirlpool::state::Oracle::DISCRIMINATOR {
                let mut r = Rd::new(&a.data, 8);
                let p = r.key();
                let te = r.u64();
                let (fp, dp, rf, cf, mx, gs, ms) = (r.u16(), r.u16(), r.u16(), r.u32(), r.u32(), r.u16(), r.u16());
                r.take(16);
                let (lr, lm, vr, gr, va) = (r.u64(), r.u64(), r.u32(), r.i32(), r.u32());
                oracle.insert(id(&p), json!({"key": me, "tradeEnableTs": nu(te as u128),
                    "filter": fp, "decay": dp, "reduction": rf, "factor": cf, "maxAcc": nu(mx as u128), "groupSize": gs, "majorTicks": ms,
                    "refTs": nu(lr as u128), "majorTs": nu(lm as u128), "volRef": nu(vr as u128), "groupRef": gr, "volAcc": nu(va as u128)}));
            } else if d == whirlpool::state::WhirlpoolsConfig::DISCRIMINATOR {
                let mut r = Rd::new(&a.data, 8);
                let (fa, ca, ra) = (r.key(), r.key(), r.key());
                let dpr = r.u16();
                let ff = r.u16();
                cfg.insert(me, json!({"feeAuth": id(&fa), "collectAuth": id(&ca), "rewardSuperAuth": id(&ra), "defaultProtoRate": dpr, "flags": ff}));
            } else if d == whirlpool::state::FeeTier::DISCRIMINATOR {
                let mut r = Rd::new(&a.data, 8);
                let c = r.key();
                let sp = r.u16();
                let fr = r.u16();
                tier.insert(me, json!({"cfg": id(&c), "spacing": sp, "defaultFeeRate": fr}));
            } else if d == whirlpool::state::AdaptiveFeeTier::DISCRIMINATOR {
                let mut r = Rd::new(&a.data, 8);
                let c = r.key();
                let idx = r.u16();
                let sp = r.u16();
                let ipa = r.key();
                let dfa = r.key();
                let br = r.u16();
                let (fp, dp, rf, cf, mx, gs, ms) = (r.u16(), r.u16(), r.u16(), r.u32(), r.u32(), r.u16(), r.u16());
                atier.insert(me, json!({"cfg": id(&c), "index": idx, "spacing": sp, "initPoolAuth": id(&ipa), "delegatedFeeAuth": id(&dfa),
                    "baseFeeRate": br, "filter": fp, "decay": dp, "reduction": rf, "factor": cf, "maxAcc": nu(mx as u128), "groupSize": gs, "majorTicks": ms}));
            } else if d == whirlpool::state::TokenBadge::DISCRIMINATOR {
                let mut r = Rd::new(&a.data, 8);
                let c = r.key();
                let m = r.key();
                let attr = r.u8();
                badge.insert(me, json!({"cfg": id(&c), "mint": id(&m), "nonTransferablePos": attr != 0}));
            } else if d == whirlpool::state::WhirlpoolsConfigExtension::DISCRIMINATOR {
                let mut r = Rd::new(&a.data, 8);
                let (c, ea, ba) = (r.key(), r.key(), r.key());
                ext.insert(me, json!({"cfg": id(&c), "extAuth": id(&ea), "badgeAuth": id(&ba)}));
            } else if d == whirlpool::state::PositionBundle::DISCRIMINATOR {
                let mut r = Rd::new(&a.data, 8);
                let m = r.key();
                let bm = r.take(32);
                let mut set = vec![];
                for i in 0..256usize {
                    if bm[i / 8] & (1 << (i % 8)) != 0 {
                        set.push(i);
                    }
                }
                // the bundled-position accounts that actually exist (PDAs of this bundle's mint)
                let existing: Vec<usize> = bundle_pdas(&m).iter().enumerate().filter(|(_, k)| bank.accts.get(k).map(|a| a.owner == wp_id && a.data.len() >= 8).unwrap_or(false)).map(|(i, _)| i).collect();
                bundle.insert(me, json!({"mint": id(&m), "open": set, "existing": existing}));
            } else if d == whirlpool::state::LockConfig::DISCRIMINATOR {
                let mut r = Rd::new(&a.data, 8);
                let (p, o, w) = (r.key(), r.key(), r.key());
                let ts = r.u64();
                let lt = r.u8();
                lock.insert(id(&p), json!({"key": me, "owner": id(&o), "pool": id(&w), "ts": nu(ts as u128), "type": lt}));
            } else {
                other.insert(me, json!({"len": a.data.len(), "disc": format!("{:?}", d)}));
            }
        } else if a.owner == spl_token::ID || a.owner == spl_token_2022::ID {
            let prog = if a.owner == spl_token::ID { "spl" } else { "t22" };
            let is_account = a.data.len() == 165 || (a.data.len() > 165 && a.data[165] == 2);
            let is_mint = a.data.len() == 82 || (a.data.len() > 165 && a.data[165] == 1);
            if is_account {
                if let Some((m, o, amt, del, st, damt, close)) = token_account_fields(&a.data) {
                    tok.insert(me, json!({"mint": id(&m), "owner": id(&o), "amount": nu(amt as u128),
                        "delegate": del.map(|d| id(&d)).unwrap_or("none".into()), "delegated": nu(damt as u128),
                        "state": st, "close": close.map(|d| id(&d)).unwrap_or("none".into()), "prog": prog}));
                }
            } else if is_mint {
                if let Some((auth, supply, dec, init, freeze)) = mint_fields(&a.data) {
                    let exts = if prog == "t22" { t22_extension_types(&a.data) } else { vec![] };
                    let tf = match if prog == "t22" { t22_transfer_fee_config(&a.data) } else { None } {
                        Some((o, n)) => json!({"has": true, "older": {"epoch": nu(o.0 as u128), "max": nu(o.1 as u128), "bps": o.2}, "newer": {"epoch": nu(n.0 as u128), "max": nu(n.1 as u128), "bps": n.2}}),
                        None => json!({"has": false, "older": {"epoch": 0, "max": 0, "bps": 0}, "newer": {"epoch": 0, "max": 0, "bps": 0}}),
                    };
                    // default account state value and TLV well-formedness (C19)
                    let (dstate, tlv_ok) = if prog == "t22" { t22_default_state_and_wf(&a.data) } else { (1u8, true) };
                    mint.insert(me, json!({"tf": tf, "defaultState": dstate, "tlvOk": tlv_ok, "native": *k == spl_token_2022::native_mint::ID,"auth": auth.map(|d| id(&d)).unwrap_or("none".into()), "supply": nu(supply as u128),
                        "decimals": dec, "init": init, "freeze": freeze.map(|d| id(&d)).unwrap_or("none".into()), "prog": prog, "exts": exts}));
                }
            }
        }
    }
    json!({"pool": pool, "tick": tick, "ta": ta, "pos": pos, "tok": tok, "mint": mint, "oracle": oracle,
           "cfg": cfg, "tier": tier, "atier": atier, "badge": badge, "ext": ext, "bundle": bundle, "lock": lock, "other": other})
}

thread_local! {
    static BUNDLE_PDAS: std::cell::RefCell<BTreeMap<Pubkey, std::rc::Rc<Vec<Pubkey>>>> = const { std::cell::RefCell::new(BTreeMap::new()) };
}
/// the 256 bundled-position addresses of a bundle mint (cached: deriving them is expensive)
pub fn bundle_pdas(mint: &Pubkey) -> std::rc::Rc<Vec<Pubkey>> {
    BUNDLE_PDAS.with(|c| {
        c.borrow_mut()
            .entry(*mint)
            .or_insert_with(|| std::rc::Rc::new((0..256u16).map(|i| Pubkey::find_program_address(&[b"bundled_position", mint.as_ref(), i.to_string().as_bytes()], &whirlpool::ID).0).collect()))
            .clone()
    })
}

fn pool_spacing(bank: &Bank, wp: &Pubkey) -> u16 {
    match bank.accts.get(wp) {
        Some(a) if a.data.len() >= 8 + 32 + 1 + 2 => u16::from_le_bytes([a.data[41], a.data[42]]),
        _ => 1,
    }
}

pub const SECTIONS: &[&str] = &["pool", "tick", "ta", "pos", "tok", "mint", "oracle", "cfg", "tier", "atier", "badge", "ext", "bundle", "lock", "other"];

/// Diff of two projections: {"set": {section: {key: rec}}, "del": {section: [keys]}}
pub fn diff(before: &Value, after: &Value) -> Value {
    let mut set = Map::new();
    let mut del = Map::new();
    for s in SECTIONS {
        let b = before[s].as_object().unwrap();
        let a = after[s].as_object().unwrap();
        let mut sset = Map::new();
        let mut sdel = vec![];
        for (k, v) in a.iter() {
            if b.get(k) != Some(v) {
                sset.insert(k.clone(), v.clone());
            }
        }
        for k in b.keys() {
            if !a.contains_key(k) {
                sdel.push(Value::String(k.clone()));
            }
        }
        set.insert(s.to_string(), Value::Object(sset));
        del.insert(s.to_string(), Value::Array(sdel));
    }
    json!({"set": set, "del": del})
}

pub fn diff_is_empty(d: &Value) -> bool {
    SECTIONS.iter().all(|s| d["set"][s].as_object().unwrap().is_empty() && d["del"][s].as_array().unwrap().is_empty())
}
