//! Driver for behaviour of the program that lies beyond the listed properties but is part of the
//! specification (the `Wider` predicates of WpTrace): the non-transferable-position requirement a pool
//! inherits from the token badges of its mints when it is created, position bundles with metadata, the
//! one-off migration of the reward-authority space, and the PoolInitialized / PositionOpened events.
use crate::project::nu;
use crate::rec::{price_of, Recorder};
use crate::world::{pda, PosKind, TokProg, World};
use crate::world2::AfConstants;
use anchor_lang::{InstructionData, ToAccountMetas};
use rand::Rng;
use serde_json::json;
use solana_program::pubkey::Pubkey;
use solana_program::{system_program, sysvar};
use whirlpool::accounts as wa;
use whirlpool::instruction as wi;

fn world(seed: u64) -> World {
    let mut w = World::new(seed);
    w.init_config("C1", 300);
    w.init_config("C2", 300);
    for u in ["U1", "U2"] {
        w.add_user(u);
    }
    // canonical order A < N < B < Q: N is token B of (A, N) and token A of (N, B)
    let keys = w.sorted_keys(4);
    w.add_mint_keyed("A", keys[0], TokProg::Spl, None);
    w.add_mint_keyed("N", keys[1], TokProg::T22, None);
    w.add_mint_keyed("B", keys[2], TokProg::Spl, None);
    w.add_mint_keyed("Q", keys[3], TokProg::T22, None);
    for u in ["U1", "U2"] {
        for m in ["A", "N", "B", "Q"] {
            w.user_token(u, m, 1 << 50);
        }
    }
    for cfg in ["C1", "C2"] {
        let ix = w.ix_init_fee_tier(cfg, 64, 3000);
        w.must_ix(&ix);
        let ix = w.ix_init_config_extension(cfg);
        w.must_ix(&ix);
        let ix = w.ix_set_config_feature_flag(cfg, true);
        w.must_ix(&ix);
        let c = AfConstants { filter_period: 30, decay_period: 600, reduction_factor: 5000, adaptive_fee_control_factor: 4000, max_volatility_accumulator: 350_000, tick_group_size: 64, major_swap_threshold_ticks: 64 };
        let ix = w.ix_init_adaptive_fee_tier(cfg, 1024, 64, Pubkey::default(), Pubkey::default(), 3000, &c);
        w.must_ix(&ix);
    }
    w
}

/// initialize_position_bundle_with_metadata (the metadata program is the harness's recording stub)
fn ix_init_bundle_with_metadata(w: &mut World, name: &str, owner: &str) -> (crate::world::Ix, crate::world::BundleInfo) {
    let ownerk = w.users[owner];
    let mint = w.new_key(&format!("bundlemint:{name}"));
    let bundle = pda(&[b"position_bundle", mint.as_ref()]);
    w.reg(bundle, &format!("bundle:{name}"));
    let ta = spl_associated_token_account::get_associated_token_address(&ownerk, &mint);
    w.reg(ta, &format!("bundleta:{name}"));
    let mp = crate::svm::metadata_program_id();
    let md = Pubkey::find_program_address(&[b"metadata", mp.as_ref(), mint.as_ref()], &mp).0;
    w.reg(md, &format!("bundlemeta:{name}"));
    let ix = crate::world::Ix::new(
        "initialize_position_bundle_with_metadata",
        "InitializePositionBundleWithMetadata",
        wa::InitializePositionBundleWithMetadata { position_bundle: bundle, position_bundle_mint: mint, position_bundle_metadata: md, position_bundle_token_account: ta, position_bundle_owner: ownerk, funder: w.funder, metadata_update_auth: whirlpool::constants::nft::whirlpool_nft_update_auth::ID, token_program: spl_token::ID, system_program: system_program::ID, rent: sysvar::rent::ID, associated_token_program: spl_associated_token_account::ID, metadata_program: mp }.to_account_metas(None),
        wi::InitializePositionBundleWithMetadata {}.data(),
        json!({"bundle": name, "owner": owner}),
    );
    (ix, crate::world::BundleInfo { name: name.to_string(), key: bundle, mint, token_account: ta, owner: owner.to_string() })
}

fn ix_migrate(w: &World, pool: &str) -> crate::world::Ix {
    crate::world::Ix::new(
        "migrate_repurpose_reward_authority_space",
        "MigrateRepurposeRewardAuthoritySpace",
        wa::MigrateRepurposeRewardAuthoritySpace { whirlpool: w.pools[pool].key }.to_account_metas(None),
        wi::MigrateRepurposeRewardAuthoritySpace {}.data(),
        json!({"pool": pool}),
    )
}

pub fn run(seed: u64, worlds: usize, rec: &mut Recorder) {
    for wi_ in 0..worlds {
        let mut w = world(seed.wrapping_mul(131).wrapping_add(wi_ as u64));
        rec.reset(&mut w, json!({"wider": true, "seed": nu(seed as u128), "world": wi_}));
        // ---- token badges and their attribute
        for (cfg, mint) in [("C1", "N"), ("C1", "Q"), ("C2", "Q")] {
            let ix = w.ix_init_token_badge(cfg, mint);
            rec.exec(&mut w, &ix, true, json!("wider"));
        }
        for (cfg, mint, v) in [("C1", "N", true), ("C1", "Q", true), ("C1", "Q", false), ("C2", "Q", true)] {
            let ix = w.ix_set_token_badge_attribute(cfg, mint, v);
            rec.exec(&mut w, &ix, true, json!("wider"));
        }
        // ---- pools: which of them inherit the requirement
        let t0 = w.rng.gen_range(-20..20) * 64 + if w.rng.gen_bool(0.5) { 0 } else { w.rng.gen_range(1..64) };
        let p = price_of(t0) + if w.rng.gen_bool(0.5) { 0 } else { w.rng.gen_range(1..1000) };
        let ix = w.ix_init_pool_v2("PN", "C1", "A", "N", 64, p); // badge of token B carries the attribute
        rec.exec(&mut w, &ix, true, json!("wider"));
        let ix = w.ix_init_pool_v2("PNB", "C1", "N", "B", 64, p); // badge of token A carries it
        rec.exec(&mut w, &ix, true, json!("wider"));
        let f = w.funder;
        let ix = w.ix_init_pool_adaptive("PNA", "C1", "A", "N", 1024, 64, p, f, None);
        rec.exec(&mut w, &ix, true, json!("wider"));
        let ix = w.ix_init_pool_v2("PQ", "C1", "A", "Q", 64, p); // attribute switched off again before the pool existed
        rec.exec(&mut w, &ix, true, json!("wider"));
        let ix = w.ix_init_pool_v2("PC2", "C2", "A", "N", 64, p); // the other config has no badge for N (only for Q)
        rec.exec(&mut w, &ix, true, json!("wider"));
        let ix = w.ix_init_pool("PV", "C1", "A", "B", 64, p); // v1 pool: never
        rec.exec(&mut w, &ix, true, json!("wider"));
        // the attribute changed after the pool was created does not change the pool
        if wi_ % 2 == 0 {
            let ix = w.ix_set_token_badge_attribute("C1", "N", false);
            rec.exec(&mut w, &ix, true, json!("wider"));
            let ix = w.ix_set_token_badge_attribute("C1", "Q", true);
            rec.exec(&mut w, &ix, true, json!("wider"));
        }
        // ---- bundles (plain and with metadata)
        let (ix, info) = w.ix_init_bundle("BU", "U1");
        rec.exec(&mut w, &ix, true, json!("wider"));
        w.bundles.insert("BU".into(), info);
        let (ix, info) = ix_init_bundle_with_metadata(&mut w, "BM", "U1");
        if rec.exec(&mut w, &ix, true, json!("wider")).ok() {
            w.bundles.insert("BM".into(), info);
        }
        // ---- opening positions of every kind on every pool
        let span = 64 * 88;
        let base = t0.div_euclid(span) * span;
        let mut next_index = (seed % 200) as u16;
        let pools = ["PN", "PNB", "PNA", "PQ", "PC2", "PV"];
        let mut opened: Vec<(String, String)> = vec![];
        for pool in pools {
            for k in -1..=1 {
                let d = w.rng.gen_bool(0.5);
                let ix = w.ix_init_tick_array(pool, base + k * span, d);
                rec.exec(&mut w, &ix, true, json!("wider"));
            }
            for variant in 0..6 {
                let lo = base + 64 * w.rng.gen_range(-40..44);
                let up = lo + 64 * w.rng.gen_range(1..40);
                let (ix, info) = match variant {
                    0 => w.ix_open_position(pool, "U1", lo, up, PosKind::Plain),
                    1 => w.ix_open_position(pool, "U1", lo, up, PosKind::Meta),
                    2 => w.ix_open_position(pool, "U1", lo, up, PosKind::TokenExt),
                    3 => {
                        let (mut ix, info) = w.ix_open_position(pool, "U1", lo, up, PosKind::TokenExt);
                        ix.data = wi::OpenPositionWithTokenExtensions { tick_lower_index: lo, tick_upper_index: up, with_token_metadata_extension: false }.data();
                        (ix, info)
                    }
                    4 => {
                        next_index = (next_index + 1) % 256;
                        w.ix_open_bundled_position("BU", next_index, pool, lo, up)
                    }
                    _ => {
                        if !w.bundles.contains_key("BM") {
                            continue;
                        }
                        next_index = (next_index + 1) % 256;
                        w.ix_open_bundled_position("BM", next_index, pool, lo, up)
                    }
                };
                // (whether it must succeed is for the specification to say; the ranges and bundle indexes chosen here are
                // valid, so that a refusal can only come from the pool's requirement)
                let mut ix = ix;
                ix.args["wider"] = json!(true);
                if rec.exec(&mut w, &ix, false, json!("wider")).ok() {
                    let n = info.name.clone();
                    w.positions.insert(n.clone(), info);
                    opened.push((n, pool.to_string()));
                }
            }
        }
        // ---- a short life of every opened position: fund, lock some, try to hand over, collect, empty, close
        for (i, (n, pool)) in opened.iter().enumerate() {
            let v2 = w.pools[pool].v2;
            let l = 1_000_000 + w.rng.gen_range(0..1_000_000);
            let ix = w.ix_increase(n, "U1", l, u64::MAX, u64::MAX, v2);
            rec.exec(&mut w, &ix, false, json!("wider"));
            let kind = w.positions[n].kind.clone();
            if kind == PosKind::TokenExt && i % 2 == 0 {
                let ix = w.ix_lock_position(n, "U1");
                rec.exec(&mut w, &ix, false, json!("wider"));
                let (ix, dst) = w.ix_transfer_locked(n, "U1", "U2");
                w.reg(dst, &format!("posta2:{n}"));
                let x = w.positions[n].clone();
                let create = spl_associated_token_account::instruction::create_associated_token_account_idempotent(&w.funder, &w.users["U2"], &x.mint, &spl_token_2022::ID);
                let pre = crate::world::Ix { name: "ata_create".into(), accts: "", metas: create.accounts.clone(), extra: ["funder", "ata", "owner", "mint", "system_program", "token_program"].iter().map(|s| s.to_string()).collect(), data: create.data.clone(), args: json!({}), program: create.program_id };
                rec.exec(&mut w, &pre, true, json!("wider"));
                if rec.exec(&mut w, &ix, false, json!("wider")).ok() {
                    let pi = w.positions.get_mut(n).unwrap();
                    pi.owner = "U2".into();
                    pi.token_account = dst;
                }
                continue;
            }
            let ix = w.ix_update_fees(n);
            rec.exec(&mut w, &ix, false, json!("wider"));
            if let Some((l, _, _)) = w.pos_range(n) {
                let ix = w.ix_decrease(n, "U1", l, 0, 0, v2);
                rec.exec(&mut w, &ix, false, json!("wider"));
            }
            let ix = w.ix_collect_fees(n, "U1", v2);
            rec.exec(&mut w, &ix, false, json!("wider"));
            let ix = if kind == PosKind::Bundled { w.ix_close_bundled_position(n) } else { w.ix_close_position(n, "U1") };
            rec.exec(&mut w, &ix, false, json!("wider"));
        }
        // ---- the one-off migration: refused on a pool in the new layout; on a pool whose reward slots 1 and 2 still carry
        // an authority (old layout, written into the account by the driver) it clears exactly those two fields
        let ix = ix_migrate(&w, "PV");
        rec.exec(&mut w, &ix, false, json!("wider"));
        for pool in ["PV", "PN"] {
            let key = w.pools[pool].key;
            let a = w.bank.accts.get_mut(&key).unwrap();
            // reward_infos[i].extension: 8 + 261 - 3 * 128 ... computed from the end: three 128-byte reward infos close the account
            let n = a.data.len();
            for i in [1usize, 2] {
                let off = n - 128 * (3 - i) + 64;
                let mut kb = [0u8; 32];
                w.rng.fill(&mut kb);
                a.data[off..off + 32].copy_from_slice(&kb);
            }
            let proj = w.project();
            let pre_diff = crate::project::diff(&w.last_proj, &proj);
            w.last_proj = proj;
            // (the tweak is carried into the specification state by an instruction that certainly succeeds)
            let ixa = w.ix_init_tick_array(pool, base + 2 * span, false);
            rec.exec(&mut w, &ixa, true, json!({"tweak": "old_layout", "preDiff": pre_diff}));
            // positions can be opened the plain way on the not-yet-migrated pool whatever the bytes say
            let lo = base + 64 * w.rng.gen_range(-40..0);
            let (ixo, info) = w.ix_open_position(pool, "U2", lo, lo + 640, PosKind::Plain);
            if rec.exec(&mut w, &ixo, false, json!("wider")).ok() {
                w.positions.insert(info.name.clone(), info);
            }
            let ix = ix_migrate(&w, pool);
            rec.exec(&mut w, &ix, true, json!("wider"));
            let ix = ix_migrate(&w, pool);
            rec.exec(&mut w, &ix, false, json!("wider")); // a second time: refused
            let (ixo, info) = w.ix_open_position(pool, "U2", lo, lo + 1280, PosKind::Plain);
            if rec.exec(&mut w, &ixo, false, json!("wider")).ok() {
                w.positions.insert(info.name.clone(), info);
            }
        }
    }
    rec.flush();
}
