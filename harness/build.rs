// Generates the table (accounts struct name -> ordered slot names) from /repo's #[derive(Accounts)] structs,
// so that recorded instructions can name every account slot. Regenerated on every change of /repo sources.
use std::fs;
use std::path::Path;

fn visit(dir: &Path, out: &mut Vec<(String, Vec<String>)>) {
    let mut entries: Vec<_> = fs::read_dir(dir).unwrap().map(|e| e.unwrap().path()).collect();
    entries.sort();
    for p in entries {
        if p.is_dir() {
            visit(&p, out);
        } else if p.extension().map(|e| e == "rs").unwrap_or(false) {
            println!("cargo:rerun-if-changed={}", p.display());
            let src = fs::read_to_string(&p).unwrap();
            let lines: Vec<&str> = src.lines().collect();
            let mut i = 0;
            while i < lines.len() {
                if lines[i].trim().starts_with("#[derive(Accounts)]") {
                    // find struct line
                    let mut j = i + 1;
                    while j < lines.len() && !lines[j].trim_start().starts_with("pub struct ") {
                        j += 1;
                    }
                    if j >= lines.len() { break; }
                    let name = lines[j].trim_start()["pub struct ".len()..]
                        .split(|c: char| !(c.is_alphanumeric() || c == '_'))
                        .next().unwrap().to_string();
                    let mut fields = vec![];
                    let mut k = j + 1;
                    let mut depth = 0i32;
                    while k < lines.len() {
                        let t = lines[k].trim();
                        if depth == 0 && t == "}" { break; }
                        // track attribute parens spanning lines
                        for ch in t.chars() {
                            if ch == '(' || ch == '[' { depth += 1; }
                            if ch == ')' || ch == ']' { depth -= 1; }
                        }
                        if depth == 0 && t.starts_with("pub ") && t.contains(':') && !t.starts_with("pub struct") {
                            let f = t["pub ".len()..].split(':').next().unwrap().trim().to_string();
                            fields.push(f);
                        }
                        k += 1;
                    }
                    out.push((name, fields));
                    i = k;
                }
                i += 1;
            }
        }
    }
}

fn main() {
    let root = Path::new("/repo/programs/whirlpool/src/instructions");
    println!("cargo:rerun-if-changed={}", root.display());
    let mut out = vec![];
    visit(root, &mut out);
    let mut s = String::from("pub const SLOTS: &[(&str, &[&str])] = &[\n");
    for (n, f) in out {
        s.push_str(&format!("    ({:?}, &{:?}),\n", n, f));
    }
    s.push_str("];\n");
    let dst = Path::new(&std::env::var("OUT_DIR").unwrap()).join("slots.rs");
    fs::write(dst, s).unwrap();
}
