------------------------------ MODULE BigInt ------------------------------
(* Arbitrary-precision integers for TLC.

   A value is an ordinary TLA+ integer when it fits in TLC's 32-bit range and a decimal string
   otherwise.  All operators below are evaluated by the Java override class
   verifbig.BigIntOverrides (java.math.BigInteger) when it is on the class path; the definitions
   given here are their meaning on ordinary integers and are what TLC uses for the toy-scale
   instances, where every intermediate value fits in 32 bits.  Comparing a big value with `='
   instead of \doteq is a TLC error (string vs integer), not a silent mismatch. *)
EXTENDS Integers

a ++ b  == a + b
a -- b == a - b
a \otimes b == a * b
BDiv(a, b)  == a \div b            \* floor division, b > 0
BMod(a, b)  == a % b
a \preceq b == a <= b
a \prec b   == a < b
a \doteq b  == a = b
BPow2(n)    == 2^n

BMin(a, b)  == IF a \preceq b THEN a ELSE b
BMax(a, b)  == IF a \preceq b THEN b ELSE a
BAbs(a)     == IF 0 \preceq a THEN a ELSE 0 -- a
CeilDiv(a, b) == BDiv(a ++ (b -- 1), b)          \* a >= 0, b > 0
MulDivFloor(a, b, c) == BDiv(a \otimes b, c)
MulDivCeil(a, b, c)  == CeilDiv(a \otimes b, c)
Wrap(x, bits) == BMod(x, BPow2(bits))                      \* two's-complement style wrap-around
=============================================================================
