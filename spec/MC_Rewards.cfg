SPECIFICATION Spec
CONSTANTS
  QBits = 4
  WrapBits = 12
  AmtBits = 10
  FeeDen = 1000000
  ProtoDen = 10000
  MinTick <- MCMinTick
  MaxTick = 2
  PosIds = {1, 2}
  Ranges <- MCRanges
  LiqUnits = {16, 48}
  Dts = {1, 3}
  Emissions = {0, 16, 40}
  StartGrowth <- MCStartGrowth
  Day = 2
  MaxOps = 8
CHECK_DEADLOCK FALSE
VIEW view
INVARIANT RewardUpper
INVARIANT RewardLower
INVARIANT NoInflation
INVARIANT PaidWasCredited
INVARIANT LiqSum
PROPERTY ZeroLiquidityNoAccrualProp
PROPERTY StampMonotoneProp
PROPERTY CollectPaysMinProp
