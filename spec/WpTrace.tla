------------------------------- MODULE WpTrace -------------------------------
(* Trace specification: validates recorded executions of the real whirlpool program (ndjson
   written by /verif/harness) against the protocol specification at full scale.

   One event = one top-level instruction (or a clock step, or a reset that starts a new
   scenario).  The abstract state `st' is bound to the logged post-state after each event (the
   harness logs the complete diff of its projection of *all* accounts); the predicates of the
   property under check are evaluated on (pre-state, event, post-state).  A trace is accepted iff
   every line is consumed.  `Active' selects which properties' predicates are enforced, so a
   check never fails on a predicate that belongs to another property.                          *)
EXTENDS WpMath, WpIface, WpMintAdmission, Json, IOUtils, TLC, Sequences, FiniteSets, FiniteSetsExt, SequencesExt

CONSTANT Active          \* set of property ids, e.g. {"C01"}

Rec == ndJsonDeserialize(IOEnv.TRACE)

VARIABLES l,             \* next line of the trace
          st,            \* abstract state (sections pool, tick, pos, tok, ...; prices; now)
          gh             \* ghost ledgers (C01 no-free-lunch segment, C07/C11 share ledgers)

vars == <<l, st, gh>>

-----------------------------------------------------------------------------
(* helpers *)
APool(e) == "pool:" \o e["args"]["pool"]
APos(e)  == "pos:" \o e["args"]["pos"]
Chk(prop, name, c) ==
  \* the failing predicate is remembered in TLC register 7 (and the failing conjunct in 8)
  \* IF (not \/): inside an action TLC would explore both disjuncts and overwrite the register
  IF prop \notin Active THEN TRUE ELSE IF (TLCSet(8, "-") /\ c) THEN TRUE ELSE (TLCSet(7, <<prop, name>>) /\ FALSE)
Sub(name, c) == IF c THEN TRUE ELSE (TLCSet(8, name) /\ FALSE)     \* which conjunct failed
(* A predicate whose violation is RECORDED (register 10: property, predicate, line, instruction) and does not stop the
   validation of the rest of the trace: used where the unchanged program is known to contradict the letter of a property
   (known_findings.json decides, in the runner, whether a recorded hit is a listed finding or a violation).        *)
Soft(prop, name, ixname, c) ==
  IF prop \notin Active \/ c THEN TRUE
  ELSE TLCSet(10, Append(TLCGet(10), [prop |-> prop, pred |-> name, line |-> l, ix |-> ixname]))
SeqSet(s) == {s[i] : i \in DOMAIN s}
BSum(S, f(_)) == FoldSet(LAMBDA x, acc : acc ++ f(x), 0, S)
SeqSum(s, f(_)) == FoldLeft(LAMBDA acc, x : acc ++ f(x), 0, s)
Has(r, k) == k \in DOMAIN r
Sections == {"pool", "tick", "ta", "pos", "tok", "mint", "oracle", "cfg", "tier", "atier", "badge", "ext", "bundle", "lock", "other"}

ApplySec(old, set, del) ==
  [k \in (DOMAIN old \cup DOMAIN set) \ SeqSet(del) |-> IF k \in DOMAIN set THEN set[k] ELSE old[k]]
MergeFn(old, new) == [k \in DOMAIN old \cup DOMAIN new |-> IF k \in DOMAIN new THEN new[k] ELSE old[k]]

ApplyDiff(s, d) ==
  [sec \in Sections |-> ApplySec(s[sec], d.set[sec], d.del[sec])] @@ [prices |-> s.prices, now |-> s.now]
Apply(s, e) ==
  [sec \in Sections |-> ApplySec(s[sec], e.diff.set[sec], e.diff.del[sec])]
     @@ [prices |-> MergeFn(s.prices, e.prices), now |-> e.now]

EmptyDiff(d) == \A sec \in Sections : DOMAIN d.set[sec] = {} /\ d.del[sec] = <<>>
ChangedKeys(d, sec) == DOMAIN d.set[sec] \cup SeqSet(d.del[sec])

P(s, t) == s.prices[ToString(t)]

ZeroTick == [init |-> FALSE, net |-> 0, gross |-> 0, foA |-> 0, foB |-> 0, ro |-> <<0, 0, 0>>]
TickKey(p, t) == p \o ":" \o ToString(t)
TickOf(s, p, t) == IF TickKey(p, t) \in DOMAIN s.tick THEN s.tick[TickKey(p, t)] ELSE ZeroTick

PosOf(s, p) == {x \in DOMAIN s.pos : s.pos[x].pool = p}
Bal(s, acct) == IF acct \in DOMAIN s.tok THEN s.tok[acct].amount ELSE 0
Delta(pre, post, acct) == Bal(post, acct) -- Bal(pre, acct)        \* signed

(* transfer-fee schedule of mint m in force at `epoch' (bps 0 when the mint has none) *)
TfCfg(s, m, epoch) ==
  LET t == s.mint[m].tf IN
  IF ~t.has THEN [bps |-> 0, max |-> 0]
  ELSE IF t.newer.epoch \preceq epoch THEN [bps |-> t.newer.bps, max |-> t.newer.max]
  ELSE [bps |-> t.older.bps, max |-> t.older.max]

-----------------------------------------------------------------------------
(* C05: liquidity sums *)
InRange(pool, x) == x.lo <= pool.tick /\ pool.tick < x.up

LiqSum(s, p) ==
  s.pool[p].liq \doteq BSum({x \in PosOf(s, p) : InRange(s.pool[p], s.pos[x])}, LAMBDA x : s.pos[x].liq)

BoundTicks(s, p) == {s.pos[x].lo : x \in PosOf(s, p)} \cup {s.pos[x].up : x \in PosOf(s, p)}
                     \cup {s.tick[k].idx : k \in {k \in DOMAIN s.tick : s.tick[k].pool = p}}

TickSums(s, p) ==
  \A t \in BoundTicks(s, p) :
    LET tk    == TickOf(s, p, t)
        lows  == {x \in PosOf(s, p) : s.pos[x].lo = t}
        ups   == {x \in PosOf(s, p) : s.pos[x].up = t}
        sLo   == BSum(lows, LAMBDA x : s.pos[x].liq)
        sUp   == BSum(ups, LAMBDA x : s.pos[x].liq)
    IN /\ tk.net \doteq (sLo -- sUp)
       /\ tk.gross \doteq (sLo ++ sUp)
       /\ tk.init <=> ~(tk.gross \doteq 0)
       /\ ~tk.init => (tk.foA \doteq 0 /\ tk.foB \doteq 0 /\ \A i \in 1..3 : tk.ro[i] \doteq 0)

C05State(s) == \A p \in DOMAIN s.pool : LiqSum(s, p) /\ TickSums(s, p)

-----------------------------------------------------------------------------
(* C01: solvency.  Claims on vault of token tok = protocol fees owed + for every position: owed
   fees + the credit an update would add now + what withdrawing all liquidity returns.          *)
FeeInside(s, p, x, isA) ==
  LET pool == s.pool[p]
      lo   == TickOf(s, p, x.lo)
      up   == TickOf(s, p, x.up)
  IN IF isA THEN GrowthInside(pool.tick, x.lo, x.up, pool.fgA, lo.init, lo.foA, up.init, up.foA)
     ELSE GrowthInside(pool.tick, x.lo, x.up, pool.fgB, lo.init, lo.foB, up.init, up.foB)

Pending(s, p, x, isA) ==
  Credit(x.liq, WSub(FeeInside(s, p, x, isA), IF isA THEN x.cpA ELSE x.cpB))

Withdrawable(s, p, x) ==
  TokenDeltas(s.pool[p].tick, s.pool[p].sqrtPrice, x.lo, x.up, P(s, x.lo), P(s, x.up), x.liq, FALSE)

Claims(s, p, isA) ==
  (IF isA THEN s.pool[p].protoA ELSE s.pool[p].protoB)
  ++ BSum(PosOf(s, p), LAMBDA k :
       LET x == s.pos[k] IN
         ((IF isA THEN x.owedA ELSE x.owedB) ++ Pending(s, p, x, isA))
            ++ Withdrawable(s, p, x)[IF isA THEN 1 ELSE 2])

Solvent(s) ==
  \A p \in DOMAIN s.pool :
     /\ Claims(s, p, TRUE)  \preceq Bal(s, s.pool[p].vaultA)
     /\ Claims(s, p, FALSE) \preceq Bal(s, s.pool[p].vaultB)

(* no-free-lunch: within a run of consecutive successful swaps on a pool, no contiguous sub-run
   leaves the traders (taken together) with no less of either token and more of one.  gh.seg[p] is
   the sequence of cumulative trader gains <<a, b>> since the last non-swap operation.           *)
Dominates(q, r) ==   \* q is at least r in both and more in one
  /\ r[1] \preceq q[1] /\ r[2] \preceq q[2] /\ (r[1] \prec q[1] \/ r[2] \prec q[2])
NoFreeLunch(seg) ==
  Len(seg) < 2 \/ \A i \in 1..(Len(seg) - 1) : ~Dominates(seg[Len(seg)], seg[i])

-----------------------------------------------------------------------------
(* swaps: C03 bounds, C06 split.  sw is the record written by the swap hook. *)
IsSwapName(n) == n \in {"swap", "swap_v2"}

StepX(sw, s) == [rem |-> s.remaining, rate |-> s.rate, L |-> s.liq, pc |-> s.p0, pt |-> s.btarget,
                 exactIn |-> sw.exact_in, aToB |-> sw.a_to_b]
StepR(s)     == [in |-> s.in, out |-> s.out, p1 |-> s.p1, fee |-> s.fee]

SumIn(sw)  == SeqSum(sw.steps, LAMBDA s : s.in ++ s.fee)
SumOut(sw) == SeqSum(sw.steps, LAMBDA s : s.out)
SumFee(sw) == SeqSum(sw.steps, LAMBDA s : s.fee)
SumCut(sw) == SeqSum(sw.steps, LAMBDA s : ProtoCut(s.fee, sw.pool.proto_rate))
GrowthFold(sw) ==
  FoldLeft(LAMBDA g, s : GrowthAfter(g, s.fee, sw.pool.proto_rate, s.liq),
           IF sw.a_to_b THEN sw.pool.fg_a ELSE sw.pool.fg_b, sw.steps)

(* trader / vault accounts of a swap event *)
InAcct(e)   == IF e.args.aToB THEN e.slots.token_owner_account_a.id ELSE e.slots.token_owner_account_b.id
OutAcct(e)  == IF e.args.aToB THEN e.slots.token_owner_account_b.id ELSE e.slots.token_owner_account_a.id
InVault(e)  == IF e.args.aToB THEN e.slots.token_vault_a.id ELSE e.slots.token_vault_b.id
OutVault(e) == IF e.args.aToB THEN e.slots.token_vault_b.id ELSE e.slots.token_vault_a.id

Traded(e) == LET S == {i \in DOMAIN e.events : e.events[i].ev = "Traded"} IN e.events[CHOOSE i \in S : TRUE]
HasTraded(e) == \E i \in DOMAIN e.events : e.events[i].ev = "Traded"

C06Swap(pre, e, post) ==
  LET sw   == e.swaps[1]
      p    == APool(e)
      paid == 0 -- Delta(pre, post, InAcct(e))
      got  == Delta(pre, post, OutAcct(e))
  IN /\ Sub("one_swap_record", Len(e.swaps) = 1 /\ sw.done)
     /\ Sub("step_fee", \A i \in DOMAIN sw.steps : FeeOK(StepX(sw, sw.steps[i]), StepR(sw.steps[i])))
     \* budget bookkeeping between steps
     /\ Sub("budget_step", \A i \in DOMAIN sw.steps :
          LET s == sw.steps[i] IN
            s.remaining1 \doteq (IF sw.exact_in THEN (s.remaining -- s.in) -- s.fee ELSE s.remaining -- s.out))
     /\ Sub("budget_chain", \A i \in 1..(Len(sw.steps) - 1) : sw.steps[i + 1].remaining \doteq sw.steps[i].remaining1)
     /\ Sub("budget_start", sw.steps[1].remaining \doteq e.args.amount)
     \* what the trader pays / receives is the sum over the steps, and nothing else
     /\ Sub("trader_pays", paid \doteq SumIn(sw))
     /\ Sub("trader_gets", got \doteq SumOut(sw))
     /\ Sub("vault_in", Delta(pre, post, InVault(e)) \doteq SumIn(sw))
     /\ Sub("vault_out", (0 -- Delta(pre, post, OutVault(e))) \doteq SumOut(sw))
     /\ Sub("no_other_account", ChangedKeys(e.diff, "tok") \subseteq {InAcct(e), OutAcct(e), InVault(e), OutVault(e)})
     \* protocol share and LP share
     /\ Sub("proto_owed", (IF e.args.aToB THEN post.pool[p].protoA ELSE post.pool[p].protoB)
           \doteq ((IF e.args.aToB THEN pre.pool[p].protoA ELSE pre.pool[p].protoB) ++ SumCut(sw)))
     /\ Sub("proto_other", (IF e.args.aToB THEN post.pool[p].protoB ELSE post.pool[p].protoA)
           \doteq (IF e.args.aToB THEN pre.pool[p].protoB ELSE pre.pool[p].protoA))
     /\ Sub("lp_growth", (IF e.args.aToB THEN post.pool[p].fgA ELSE post.pool[p].fgB) \doteq GrowthFold(sw))
     /\ Sub("growth_other", (IF e.args.aToB THEN post.pool[p].fgB ELSE post.pool[p].fgA)
           \doteq (IF e.args.aToB THEN pre.pool[p].fgB ELSE pre.pool[p].fgA))
     \* the hook's view of the pool is the pre-state
     /\ Sub("hook_pre", sw.pool.fg_a \doteq pre.pool[p].fgA /\ sw.pool.fg_b \doteq pre.pool[p].fgB
                        /\ sw.pool.proto_rate = pre.pool[p].protoRate /\ sw.pool.liq \doteq pre.pool[p].liq)
     \* the trade record
     /\ Sub("has_traded", HasTraded(e))
     /\ LET t == Traded(e) IN
          /\ Sub("traded_amounts", t.inputAmount \doteq SumIn(sw) /\ t.outputAmount \doteq SumOut(sw))
          /\ Sub("traded_fees", t.protocolFee \doteq SumCut(sw) /\ t.lpFee \doteq (SumFee(sw) -- SumCut(sw)))
          /\ Sub("traded_prices", t.preSqrtPrice \doteq pre.pool[p].sqrtPrice /\ t.postSqrtPrice \doteq post.pool[p].sqrtPrice)
          /\ Sub("traded_ids", t.aToB = e.args.aToB /\ t.pool = e.slots.whirlpool.id)

(* C06 on pools whose mints charge a Token-2022 transfer fee: the fee split of the swap itself is unchanged - the step fees,
   the protocol share and LP share booked, the budget bookkeeping and the fee fields of the trade record - and the vault
   receives at least what the pool books as curve input plus fee (how much more, and what the trader is debited, is C16's
   business).                                                                                          *)
C06SwapTf(pre, e, post) ==
  LET sw == e.swaps[1] p == APool(e) IN
  /\ Sub("one_swap_record", Len(e.swaps) = 1 /\ sw.done)
  /\ Sub("step_fee", \A i \in DOMAIN sw.steps : FeeOK(StepX(sw, sw.steps[i]), StepR(sw.steps[i])))
  /\ Sub("budget_step", \A i \in DOMAIN sw.steps :
        LET s == sw.steps[i] IN
          s.remaining1 \doteq (IF sw.exact_in THEN (s.remaining -- s["in"]) -- s.fee ELSE s.remaining -- s.out))
  /\ Sub("budget_chain", \A i \in 1..(Len(sw.steps) - 1) : sw.steps[i + 1].remaining \doteq sw.steps[i].remaining1)
  /\ Sub("vault_receives_what_is_booked", SumIn(sw) \preceq Delta(pre, post, InVault(e)))
  /\ Sub("vault_pays_what_is_booked", (0 -- Delta(pre, post, OutVault(e))) \doteq SumOut(sw))
  /\ Sub("proto_owed", (IF e.args.aToB THEN post.pool[p].protoA ELSE post.pool[p].protoB)
        \doteq ((IF e.args.aToB THEN pre.pool[p].protoA ELSE pre.pool[p].protoB) ++ SumCut(sw)))
  /\ Sub("proto_other", (IF e.args.aToB THEN post.pool[p].protoB ELSE post.pool[p].protoA)
        \doteq (IF e.args.aToB THEN pre.pool[p].protoB ELSE pre.pool[p].protoA))
  /\ Sub("lp_growth", (IF e.args.aToB THEN post.pool[p].fgA ELSE post.pool[p].fgB) \doteq GrowthFold(sw))
  /\ Sub("growth_other", (IF e.args.aToB THEN post.pool[p].fgB ELSE post.pool[p].fgA)
        \doteq (IF e.args.aToB THEN pre.pool[p].fgB ELSE pre.pool[p].fgA))
  /\ Sub("has_traded", HasTraded(e))
  /\ LET t == Traded(e) IN Sub("traded_fees", t.protocolFee \doteq SumCut(sw) /\ t.lpFee \doteq (SumFee(sw) -- SumCut(sw)))

(* C06 for two-hop swaps: each leg's fee is split and booked on ITS pool exactly like a single swap's - protocol
   share added to the protocol fees owed in the leg's input token, LP share folded into that token's growth, the
   other token's counters untouched - and each pool's Traded record reports these amounts.              *)
\* (the hook record of a leg does not carry the pool's address: it is recognised by the pool summary it starts from - price, liquidity,
\* fee rate, both fee-growth accumulators, both protocol-fee counters, tick; two pools that agree on all of that are told apart by the
\* order of computation: an exact-in two-hop computes leg one first, an exact-out two-hop leg two)
LegRecord(e, pre, q, aToB) ==
  LET S == {k \in DOMAIN e.swaps : e.swaps[k].done /\ e.swaps[k].a_to_b = aToB /\ e.swaps[k].pool.sqrt_price \doteq pre.pool[q].sqrtPrice
                                    /\ e.swaps[k].pool.liq \doteq pre.pool[q].liq /\ e.swaps[k].pool.fee_rate = pre.pool[q].feeRate
                                    /\ e.swaps[k].pool.fg_a \doteq pre.pool[q].fgA /\ e.swaps[k].pool.fg_b \doteq pre.pool[q].fgB
                                    /\ e.swaps[k].pool.proto_a \doteq pre.pool[q].protoA /\ e.swaps[k].pool.proto_b \doteq pre.pool[q].protoB
                                    /\ e.swaps[k].pool.tick = pre.pool[q].tick}
      first == (q = e.slots.whirlpool_one.id) = e.args.exactIn       \* is this pool's leg the one computed first?
  IN IF S = {} THEN 0
     ELSE IF Cardinality(S) = 1 THEN CHOOSE k \in S : TRUE
     ELSE IF first THEN CHOOSE k \in S : \A j \in S : k <= j ELSE CHOOSE k \in S : \A j \in S : k >= j
C06Leg(pre, e, post, q, aToB) ==
  LET k == LegRecord(e, pre, q, aToB) IN
  /\ Sub("leg_recorded", k # 0)
  /\ k # 0 =>
     LET sw == e.swaps[k]
         T  == {i \in DOMAIN e.events : e.events[i].ev = "Traded" /\ e.events[i].pool = q}
     IN /\ Sub("step_fee", \A i \in DOMAIN sw.steps : FeeOK(StepX(sw, sw.steps[i]), StepR(sw.steps[i])))
        /\ Sub("proto_owed", (IF aToB THEN post.pool[q].protoA ELSE post.pool[q].protoB)
              \doteq ((IF aToB THEN pre.pool[q].protoA ELSE pre.pool[q].protoB) ++ SumCut(sw)))
        /\ Sub("proto_other", (IF aToB THEN post.pool[q].protoB ELSE post.pool[q].protoA)
              \doteq (IF aToB THEN pre.pool[q].protoB ELSE pre.pool[q].protoA))
        /\ Sub("lp_growth", (IF aToB THEN post.pool[q].fgA ELSE post.pool[q].fgB) \doteq GrowthFold(sw))
        /\ Sub("growth_other", (IF aToB THEN post.pool[q].fgB ELSE post.pool[q].fgA)
              \doteq (IF aToB THEN pre.pool[q].fgB ELSE pre.pool[q].fgA))
        /\ Sub("traded_record", T # {} /\ LET t == e.events[CHOOSE i \in T : TRUE] IN
                                  t.protocolFee \doteq SumCut(sw) /\ t.lpFee \doteq (SumFee(sw) -- SumCut(sw)) /\ t.aToB = aToB)
C06TwoHop(pre, e, post) ==
  /\ Sub("two_swap_records", Len(e.swaps) = 2)
  /\ C06Leg(pre, e, post, e.slots.whirlpool_one.id, e.args.aToB1)
  /\ C06Leg(pre, e, post, e.slots.whirlpool_two.id, e.args.aToB2)

C06CollectProtocol(pre, e, post) ==
  LET p == APool(e)
      cA == TfCfg(pre, pre.pool[p].mintA, e.epoch)      \* (no fee: bps 0; with a transfer fee the destination receives the owed amount less the fee)
      cB == TfCfg(pre, pre.pool[p].mintB, e.epoch)
  IN
  /\ Delta(pre, post, e.slots.token_destination_a.id) \doteq TfExcluded(cA, pre.pool[p].protoA)
  /\ Delta(pre, post, e.slots.token_destination_b.id) \doteq TfExcluded(cB, pre.pool[p].protoB)
  /\ (0 -- Delta(pre, post, e.slots.token_vault_a.id)) \doteq pre.pool[p].protoA
  /\ (0 -- Delta(pre, post, e.slots.token_vault_b.id)) \doteq pre.pool[p].protoB
  /\ post.pool[p].protoA \doteq 0 /\ post.pool[p].protoB \doteq 0

MinSqrtPrice == "4295048016"
MaxSqrtPrice == "79226673515401279992447579055"

C03Swap(pre, e, post) ==
  LET p     == APool(e)
      a     == e.args
      paid  == 0 -- Delta(pre, post, InAcct(e))
      got   == Delta(pre, post, OutAcct(e))
      p0    == pre.pool[p].sqrtPrice
      p1    == post.pool[p].sqrtPrice
      lim   == IF a.limit \doteq 0 THEN (IF a.aToB THEN MinSqrtPrice ELSE MaxSqrtPrice) ELSE a.limit
      used  == IF a.exactIn THEN paid ELSE got
  IN /\ Sub("input_bound", a.exactIn => paid \preceq a.amount)
     /\ Sub("output_bound", ~a.exactIn => got \preceq a.amount)
     /\ Sub("direction", IF a.aToB THEN p1 \preceq p0 ELSE p0 \preceq p1)
     /\ Sub("protocol_price_bounds", MinSqrtPrice \preceq p1 /\ p1 \preceq MaxSqrtPrice)
     /\ Sub("not_beyond_limit", IF a.aToB THEN lim \preceq p1 ELSE p1 \preceq lim)
     /\ Sub("less_only_at_limit", used \prec a.amount => p1 \doteq lim)
     /\ Sub("exact_out_without_limit_is_full", (~a.exactIn /\ a.limit \doteq 0) => got \doteq a.amount)
     /\ Sub("minimum_output", a.exactIn => a.threshold \preceq got)
     /\ Sub("maximum_input", ~a.exactIn => paid \preceq a.threshold)
     /\ Sub("positive_amount", 0 \prec a.amount)

-----------------------------------------------------------------------------
(* C08: liquidity <-> token amounts at instruction level (no transfer fee) *)
C08Modify(pre, e, post, increase) ==
  LET x    == pre.pos[APos(e)]
      p    == x.pool
      pool == pre.pool[p]
      td   == TokenDeltas(pool.tick, pool.sqrtPrice, x.lo, x.up, P(post, x.lo), P(post, x.up), e.args.liq, increase)
      ua   == e.slots.token_owner_account_a.id
      ub   == e.slots.token_owner_account_b.id
      va   == e.slots.token_vault_a.id
      vb   == e.slots.token_vault_b.id
  IN IF increase
     THEN /\ (0 -- Delta(pre, post, ua)) \doteq td[1] /\ (0 -- Delta(pre, post, ub)) \doteq td[2]
          /\ Delta(pre, post, va) \doteq td[1] /\ Delta(pre, post, vb) \doteq td[2]
          /\ td[1] \preceq e.args.maxA /\ td[2] \preceq e.args.maxB
          /\ post.pos[APos(e)].liq \doteq (x.liq ++ e.args.liq)
     ELSE /\ Delta(pre, post, ua) \doteq td[1] /\ Delta(pre, post, ub) \doteq td[2]
          /\ (0 -- Delta(pre, post, va)) \doteq td[1] /\ (0 -- Delta(pre, post, vb)) \doteq td[2]
          /\ e.args.minA \preceq td[1] /\ e.args.minB \preceq td[2]
          /\ post.pos[APos(e)].liq \doteq (x.liq -- e.args.liq)

NoTransferFee(s, p) == s.mint[s.pool[p].mintA].exts = <<>> /\ s.mint[s.pool[p].mintB].exts = <<>>

-----------------------------------------------------------------------------
(* C07: ghost share ledgers.  For every position the spec accumulates, per swap step executed while
   the segment tick is inside its range, the exact pro-rata share of the step's LP fee as a
   2^128-scaled interval [lo, hi] (floor / ceil of lp * L * 2^128 / Lt).  `cr' sums what the program
   credited (increments of owed), starting at minus what was pending when the ledger was opened.
   n counts in-range steps and credits (each loses less than L/2^64 + 1 units), lmax the largest
   liquidity held.  (The -1 at opening: what was pending then is a floor, so the first credit can
   contain up to one unit that belongs to the time before the ledger.)                                                                               *)
Q128 == BPow2(128)
LedOpen(s, k) ==
  LET x == s.pos[k] IN
  [hiA |-> 0, loA |-> 0, hiB |-> 0, loB |-> 0,
   crA |-> (0 -- Pending(s, x.pool, x, TRUE)) -- 1, crB |-> (0 -- Pending(s, x.pool, x, FALSE)) -- 1, n |-> 0, lmax |-> x.liq]

StepInRange(sp_, x) == ~(sp_.liq \doteq 0) /\ ~(x.liq \doteq 0) /\ x.lo <= sp_.tick0 /\ sp_.tick0 < x.up
LpFee(sw, sp_) == sp_.fee -- ProtoCut(sp_.fee, sw.pool.proto_rate)
ShareHi(sw, x) == SeqSum(sw.steps, LAMBDA sp_ : IF StepInRange(sp_, x) THEN CeilDiv((LpFee(sw, sp_) \otimes x.liq) \otimes Q128, sp_.liq) ELSE 0)
ShareLo(sw, x) == SeqSum(sw.steps, LAMBDA sp_ : IF StepInRange(sp_, x) THEN BDiv((LpFee(sw, sp_) \otimes x.liq) \otimes Q128, sp_.liq) ELSE 0)
StepsIn(sw, x) == SeqSum(sw.steps, LAMBDA sp_ : IF StepInRange(sp_, x) THEN 1 ELSE 0)

OwedDelta(a, b) == Wrap((b ++ BPow2(64)) -- a, 64)       \* increment of a wrapping u64

PosUpdateNames == {"increase_liquidity", "increase_liquidity_v2", "decrease_liquidity", "decrease_liquidity_v2",
                   "increase_liquidity_by_token_amounts_v2", "update_fees_and_rewards"}
LedResetNames == {"reposition_liquidity_v2", "reset_position_range"}

LedAfter(led, pre, e, post) ==
  LET base == [k \in (DOMAIN led \cap DOMAIN post.pos) |-> led[k]]
      fresh == [k \in (DOMAIN post.pos \ DOMAIN led) |-> LedOpen(post, k)]
      cur == base @@ fresh
  IN IF IsSwapName(e.name) /\ Len(e.swaps) = 1
     THEN LET sw == e.swaps[1] p == APool(e) IN
          [k \in DOMAIN cur |->
             IF k \in DOMAIN pre.pos /\ pre.pos[k].pool = p
             THEN LET x == pre.pos[k] IN
                  IF e.args.aToB
                  THEN [cur[k] EXCEPT !.hiA = @ ++ ShareHi(sw, x), !.loA = @ ++ ShareLo(sw, x), !.n = @ ++ StepsIn(sw, x)]
                  ELSE [cur[k] EXCEPT !.hiB = @ ++ ShareHi(sw, x), !.loB = @ ++ ShareLo(sw, x), !.n = @ ++ StepsIn(sw, x)]
             ELSE cur[k]]
     ELSE IF e.name \in PosUpdateNames /\ APos(e) \in DOMAIN pre.pos /\ APos(e) \in DOMAIN cur
     THEN LET k == APos(e) IN
          [cur EXCEPT ![k] = [@ EXCEPT !.crA = @ ++ OwedDelta(pre.pos[k].owedA, post.pos[k].owedA),
                                       !.crB = @ ++ OwedDelta(pre.pos[k].owedB, post.pos[k].owedB),
                                       !.n = @ ++ 1, !.lmax = BMax(@, post.pos[k].liq)]]
     ELSE IF e.name \in LedResetNames /\ APos(e) \in DOMAIN cur
     THEN [cur EXCEPT ![APos(e)] = LedOpen(post, APos(e))]
     ELSE cur

LedSlack(ld) == (ld.n \otimes (BDiv(ld.lmax, BPow2(64)) ++ 1)) ++ 2
C07Ledger(led, post) ==
  \A k \in DOMAIN led :
    LET ld == led[k] x == post.pos[k] IN
    /\ Sub("fee_upper_a", (ld.crA \otimes Q128) \preceq ld.hiA)
    /\ Sub("fee_upper_b", (ld.crB \otimes Q128) \preceq ld.hiB)
    /\ Sub("fee_lower_a", ld.loA \preceq (((ld.crA ++ Pending(post, x.pool, x, TRUE)) ++ LedSlack(ld)) \otimes Q128))
    /\ Sub("fee_lower_b", ld.loB \preceq (((ld.crB ++ Pending(post, x.pool, x, FALSE)) ++ LedSlack(ld)) \otimes Q128))

(* Re-ranging (reposition_liquidity_v2, reset_position_range) closes a ledger: what the instruction credits on
   the way out of the old range is judged against the share accumulated there - nothing is pending any more
   in the old range afterwards - before a new ledger is opened for the new range.                  *)
C07AtRerange(led, pre, e, post) ==
  (e.name \in LedResetNames /\ APos(e) \in DOMAIN led /\ APos(e) \in DOMAIN pre.pos /\ APos(e) \in DOMAIN post.pos) =>
    LET k  == APos(e)
        ld == [led[k] EXCEPT !.crA = @ ++ OwedDelta(pre.pos[k].owedA, post.pos[k].owedA),
                             !.crB = @ ++ OwedDelta(pre.pos[k].owedB, post.pos[k].owedB), !.n = @ ++ 1]
    IN /\ Sub("fee_upper_a_at_rerange", (ld.crA \otimes Q128) \preceq ld.hiA)
       /\ Sub("fee_upper_b_at_rerange", (ld.crB \otimes Q128) \preceq ld.hiB)
       /\ Sub("fee_lower_a_at_rerange", ld.loA \preceq ((ld.crA ++ LedSlack(ld)) \otimes Q128))
       /\ Sub("fee_lower_b_at_rerange", ld.loB \preceq ((ld.crB ++ LedSlack(ld)) \otimes Q128))

-----------------------------------------------------------------------------
(* C11: rewards.  Every instruction that carries a timestamp first accrues, for every initialized
   reward of the pool, floor(dt * emissions / liquidity) of growth (nothing when the in-range
   liquidity is zero, dt = 0 or the product exceeds 128 bits) and stamps the pool with `now';
   it fails when `now' is earlier than the last update.                                         *)
UpdatingNames == {"swap", "swap_v2", "increase_liquidity", "increase_liquidity_v2", "decrease_liquidity", "decrease_liquidity_v2",
                  "increase_liquidity_by_token_amounts_v2", "reposition_liquidity_v2", "update_fees_and_rewards",
                  "set_reward_emissions", "set_reward_emissions_v2"}
PoolOfEvent(pre, e) ==
  IF Has(e.args, "pool") THEN APool(e)
  ELSE IF Has(e.args, "pos") /\ APos(e) \in DOMAIN pre.pos THEN pre.pos[APos(e)].pool ELSE "none"

\* (WpMath!RewardAccrues / RewardGrowthDelta are shared with the toy-scale model Rewards.tla)
Accrues(pool, i, now) ==
  pool.rewards[i].init /\ RewardAccrues(now -- pool.rewardTs, pool.rewards[i].emissions, pool.liq)
AccruedGrowth(pool, i, now) ==
  IF Accrues(pool, i, now)
  THEN WAdd(pool.rewards[i].growth, RewardGrowthDelta(now -- pool.rewardTs, pool.rewards[i].emissions, pool.liq))
  ELSE pool.rewards[i].growth

C11Accrual(pre, e, post) ==
  \A p \in DOMAIN pre.pool \cap DOMAIN post.pool :
    IF p = PoolOfEvent(pre, e) /\ e.name \in UpdatingNames
    THEN /\ Sub("timestamp_monotone", pre.pool[p].rewardTs \preceq e.now)
         /\ Sub("timestamp_stamped", post.pool[p].rewardTs \doteq e.now)
         /\ Sub("growth_accrued", \A i \in 1..3 : post.pool[p].rewards[i].growth \doteq AccruedGrowth(pre.pool[p], i, e.now))
    ELSE /\ Sub("timestamp_untouched", post.pool[p].rewardTs \doteq pre.pool[p].rewardTs)
         /\ Sub("growth_untouched", \A i \in 1..3 : post.pool[p].rewards[i].growth \doteq pre.pool[p].rewards[i].growth)

C11SetEmissions(pre, e, post) ==
  LET p == APool(e) i == e.args.index + 1 IN
  /\ Sub("day_funded", BDiv(86400 \otimes e.args.emissions, BPow2(64)) \preceq Bal(pre, e.slots.reward_vault.id))
  /\ Sub("vault_of_index", e.slots.reward_vault.id = pre.pool[p].rewards[i].vault /\ pre.pool[p].rewards[i].init)
  /\ Sub("emissions_set", post.pool[p].rewards[i].emissions \doteq e.args.emissions)
  /\ Sub("others_unchanged", \A j \in 1..3 : j # i => post.pool[p].rewards[j].emissions \doteq pre.pool[p].rewards[j].emissions)

C11Collect(pre, e, post) ==
  LET k == APos(e) i == e.args.index + 1
      owed == pre.pos[k].rw[i].owed
      vb == Bal(pre, e.slots.reward_vault.id)
      paid == BMin(owed, vb)
      c == TfCfg(pre, pre.pool[pre.pos[k].pool].rewards[i].mint, e.epoch)      \* a reward mint may charge a transfer fee
  IN /\ Sub("pays_min", Delta(pre, post, e.slots.reward_owner_account.id) \doteq TfExcluded(c, paid))
     /\ Sub("vault_pays", (0 -- Delta(pre, post, e.slots.reward_vault.id)) \doteq paid)
     /\ Sub("remainder_owed", post.pos[k].rw[i].owed \doteq (owed -- paid))
     /\ Sub("vault_of_index", e.slots.reward_vault.id = pre.pool[pre.pos[k].pool].rewards[i].vault)

(* reward share ledgers, as for fees (C07) but per accrual interval *)
RewardInside(s, x, i) ==
  LET pool == s.pool[x.pool] lo == TickOf(s, x.pool, x.lo) up == TickOf(s, x.pool, x.up) IN
  GrowthInside(pool.tick, x.lo, x.up, pool.rewards[i].growth, lo.init, lo.ro[i], up.init, up.ro[i])
PendingR(s, x, i) == Credit(x.liq, WSub(RewardInside(s, x, i), x.rw[i].cp))

RLedOpen(s, k) ==
  [i \in 1..3 |-> [hi |-> 0, lo |-> 0, cr |-> (0 -- PendingR(s, s.pos[k], i)) -- 1, n |-> 0, lmax |-> s.pos[k].liq]]

RShare(pool, x, i, now, up) ==
  LET num == ((((now -- pool.rewardTs) \otimes pool.rewards[i].emissions) \otimes x.liq) \otimes BPow2(64)) IN
  IF up THEN CeilDiv(num, pool.liq) ELSE BDiv(num, pool.liq)

RLedAccrued(rled, pre, e, post) ==     \* the ledgers after this event's accrual interval (before any credit)
  LET base  == [k \in (DOMAIN rled \cap DOMAIN post.pos) |-> rled[k]]
      fresh == [k \in (DOMAIN post.pos \ DOMAIN rled) |-> RLedOpen(post, k)]
      cur   == base @@ fresh
      p     == PoolOfEvent(pre, e)
  IN IF e.name \in UpdatingNames /\ p \in DOMAIN pre.pool
     THEN [k \in DOMAIN cur |->
            IF k \in DOMAIN pre.pos /\ pre.pos[k].pool = p /\ InRange(pre.pool[p], pre.pos[k]) /\ ~(pre.pos[k].liq \doteq 0)
            THEN [i \in 1..3 |->
                   IF Accrues(pre.pool[p], i, e.now)
                   THEN [cur[k][i] EXCEPT !.hi = @ ++ RShare(pre.pool[p], pre.pos[k], i, e.now, TRUE),
                                          !.lo = @ ++ RShare(pre.pool[p], pre.pos[k], i, e.now, FALSE),
                                          !.n = @ ++ 1]
                   ELSE cur[k][i]]
            ELSE cur[k]]
     ELSE cur

RLedAfter(rled, pre, e, post) ==
  LET acc == RLedAccrued(rled, pre, e, post) IN
  IF e.name \in PosUpdateNames /\ APos(e) \in DOMAIN pre.pos /\ APos(e) \in DOMAIN acc
  THEN LET k == APos(e) IN
       [acc EXCEPT ![k] = [i \in 1..3 |->
          IF WrapMod \preceq (pre.pos[k].liq \otimes WSub(post.pos[k].rw[i].cp, pre.pos[k].rw[i].cp))
          THEN RLedOpen(post, k)[i]          \* the credit was dropped (overflow => 0): start a new period
          ELSE [acc[k][i] EXCEPT !.cr = @ ++ OwedDelta(pre.pos[k].rw[i].owed, post.pos[k].rw[i].owed),
                                 !.n = @ ++ 1, !.lmax = BMax(@, post.pos[k].liq)]]]
  ELSE IF e.name \in LedResetNames /\ APos(e) \in DOMAIN acc
  THEN [acc EXCEPT ![APos(e)] = RLedOpen(post, APos(e))]
  ELSE acc

(* rewards credited on the way out of the old range at a re-range, against the share accumulated there (a credit the
   program may drop - 128-bit overflow of liquidity x growth - relaxes the lower bound only)            *)
C11AtRerange(rled, pre, e, post) ==
  (e.name \in LedResetNames /\ APos(e) \in DOMAIN rled /\ APos(e) \in DOMAIN pre.pos /\ APos(e) \in DOMAIN post.pos) =>
    LET k   == APos(e)
        acc == RLedAccrued(rled, pre, e, post)
        x   == pre.pos[k]
        pl  == [pre.pool[x.pool] EXCEPT !.rewards = [i \in 1..3 |-> [@[i] EXCEPT !.growth = AccruedGrowth(pre.pool[x.pool], i, e.now)]]]
        sAcc == [pre EXCEPT !.pool = [@ EXCEPT ![x.pool] = pl]]
    IN \A i \in 1..3 :
         LET ld == [acc[k][i] EXCEPT !.cr = @ ++ OwedDelta(x.rw[i].owed, post.pos[k].rw[i].owed), !.n = @ ++ 1]
             dropped == WrapMod \preceq (x.liq \otimes WSub(RewardInside(sAcc, x, i), x.rw[i].cp))
         IN /\ Sub("reward_upper_at_rerange", (ld.cr \otimes Q128) \preceq ld.hi)
            /\ Sub("reward_lower_at_rerange", dropped \/ ld.lo \preceq ((ld.cr ++ LedSlack(ld)) \otimes Q128))

C11Ledger(rled, post) ==
  \A k \in DOMAIN rled : \A i \in 1..3 :
    LET ld == rled[k][i] x == post.pos[k] IN
    /\ Sub("reward_upper", (ld.cr \otimes Q128) \preceq ld.hi)
    \* (a pending amount beyond the 64-bit range - liquidity x growth delta >= 2^128 - is dropped by the program, as the
    \* property allows: the lower bound then says nothing; the upper bound still holds)
    /\ Sub("reward_lower", WrapMod \preceq (x.liq \otimes WSub(RewardInside(post, x, i), x.rw[i].cp))
                            \/ ld.lo \preceq (((ld.cr ++ PendingR(post, x, i)) ++ LedSlack(ld)) \otimes Q128))

-----------------------------------------------------------------------------
(* C16: transfer-fee tokens at instruction level.  The real Token-2022 processor executes the
   transfers and withholds the fee, so balance deltas are ground truth: the user's account loses
   `paid', the vault's amount grows by paid - fee; the vault loses `sent', the user gains sent - fee. *)

C16Swap(pre, e, post) ==
  LET sw    == e.swaps[1]
      p     == APool(e)
      a     == e.args
      cIn   == TfCfg(pre, IF a.aToB THEN pre.pool[p].mintA ELSE pre.pool[p].mintB, e.epoch)
      cOut  == TfCfg(pre, IF a.aToB THEN pre.pool[p].mintB ELSE pre.pool[p].mintA, e.epoch)
      paid  == 0 -- Delta(pre, post, InAcct(e))
      vIn   == Delta(pre, post, InVault(e))
      sent  == 0 -- Delta(pre, post, OutVault(e))
      got   == Delta(pre, post, OutAcct(e))
      need  == SumIn(sw)
  IN /\ Sub("one_swap_record", Len(e.swaps) = 1 /\ sw.done)
     /\ Sub("vault_receives_curve_amount", need \preceq vIn)
     /\ Sub("vault_pays_curve_amount", sent \doteq SumOut(sw))
     /\ Sub("fee_withheld_in", vIn \doteq TfExcluded(cIn, paid))
     /\ Sub("fee_withheld_out", got \doteq TfExcluded(cOut, sent))
     /\ IF a.exactIn
        THEN /\ Sub("pays_at_most_specified", paid \preceq a.amount)
             /\ Sub("request_is_smallest", IF need \doteq TfExcluded(cIn, a.amount) THEN paid \doteq a.amount ELSE TfMinimalFor(cIn, paid, need))
             /\ Sub("threshold_on_received", a.threshold \preceq got)
        ELSE /\ Sub("request_is_smallest", TfMinimalFor(cIn, paid, need))
             /\ Sub("receives_at_most_requested", got \preceq a.amount)
             /\ Sub("receives_exactly_requested", (a.limit \doteq 0) => got \doteq a.amount)
             /\ Sub("sent_is_smallest", (got \doteq a.amount) => TfMinimalFor(cOut, sent, a.amount))
             /\ Sub("threshold_on_paid", paid \preceq a.threshold)
     /\ Sub("has_traded", HasTraded(e))
     /\ LET t == Traded(e) IN
          /\ Sub("event_amounts", t.inputAmount \doteq paid /\ t.outputAmount \doteq sent)
          /\ Sub("event_fees", t.inputTransferFee \doteq (paid -- vIn) /\ t.outputTransferFee \doteq (sent -- got))

LiqEvent(e, name) == LET S == {i \in DOMAIN e.events : e.events[i].ev = name} IN e.events[CHOOSE i \in S : TRUE]
HasLiqEvent(e, name) == \E i \in DOMAIN e.events : e.events[i].ev = name

C16Modify(pre, e, post, increase) ==
  LET x    == pre.pos[APos(e)]
      p    == x.pool
      pool == pre.pool[p]
      td   == TokenDeltas(pool.tick, pool.sqrtPrice, x.lo, x.up, P(post, x.lo), P(post, x.up), e.args.liq, increase)
      cA   == TfCfg(pre, pool.mintA, e.epoch)
      cB   == TfCfg(pre, pool.mintB, e.epoch)
      ua   == e.slots.token_owner_account_a.id
      ub   == e.slots.token_owner_account_b.id
      va   == e.slots.token_vault_a.id
      vb   == e.slots.token_vault_b.id
  IN IF increase
     THEN LET paidA == 0 -- Delta(pre, post, ua) paidB == 0 -- Delta(pre, post, ub) IN
          /\ Sub("vault_receives_exact", Delta(pre, post, va) \doteq td[1] /\ Delta(pre, post, vb) \doteq td[2])
          /\ Sub("request_is_smallest", TfInclOK(cA, td[1], [amount |-> paidA, fee |-> TfFee(cA, paidA)])
                                      /\ TfInclOK(cB, td[2], [amount |-> paidB, fee |-> TfFee(cB, paidB)]))
          /\ Sub("max_on_paid", paidA \preceq e.args.maxA /\ paidB \preceq e.args.maxB)
          /\ Sub("event", HasLiqEvent(e, "LiquidityIncreased") /\
                 LET v == LiqEvent(e, "LiquidityIncreased") IN
                   v.amountA \doteq paidA /\ v.amountB \doteq paidB /\ v.feeA \doteq TfFee(cA, paidA) /\ v.feeB \doteq TfFee(cB, paidB))
     ELSE LET gotA == Delta(pre, post, ua) gotB == Delta(pre, post, ub) IN
          /\ Sub("vault_pays_exact", (0 -- Delta(pre, post, va)) \doteq td[1] /\ (0 -- Delta(pre, post, vb)) \doteq td[2])
          /\ Sub("user_receives_net", gotA \doteq TfExcluded(cA, td[1]) /\ gotB \doteq TfExcluded(cB, td[2]))
          /\ Sub("min_on_received", e.args.minA \preceq gotA /\ e.args.minB \preceq gotB)
          /\ Sub("event", HasLiqEvent(e, "LiquidityDecreased") /\
                 LET v == LiqEvent(e, "LiquidityDecreased") IN
                   v.amountA \doteq td[1] /\ v.amountB \doteq td[2] /\ v.feeA \doteq TfFee(cA, td[1]) /\ v.feeB \doteq TfFee(cB, td[2]))

(* collect_fees pays out exactly what the position is owed (a claim leaves the vault exactly when it is
   extinguished - part of C01's "claims can always be paid, nobody extracts value"), and touches nothing
   else of the position.                                                                          *)
CollectFees(pre, e, post) ==
  LET k  == APos(e)
      x  == pre.pos[k]
      pl == pre.pool[x.pool]
      cA == TfCfg(pre, pl.mintA, e.epoch)
      cB == TfCfg(pre, pl.mintB, e.epoch)
  IN /\ Sub("vault_pays_owed", (0 -- Delta(pre, post, e.slots.token_vault_a.id)) \doteq x.owedA /\ (0 -- Delta(pre, post, e.slots.token_vault_b.id)) \doteq x.owedB)
     /\ Sub("owner_receives_owed", Delta(pre, post, e.slots.token_owner_account_a.id) \doteq TfExcluded(cA, x.owedA)
                                  /\ Delta(pre, post, e.slots.token_owner_account_b.id) \doteq TfExcluded(cB, x.owedB))
     /\ Sub("owed_reset", post.pos[k].owedA \doteq 0 /\ post.pos[k].owedB \doteq 0)
     /\ Sub("position_otherwise_untouched", post.pos[k].liq \doteq x.liq /\ post.pos[k].lo = x.lo /\ post.pos[k].up = x.up
                                            /\ post.pos[k].cpA \doteq x.cpA /\ post.pos[k].cpB \doteq x.cpB)
     /\ Sub("pool_untouched", post.pool[x.pool] = pl)

(* increase_liquidity_by_token_amounts_v2 (C08 last clause + C16): the liquidity added is the largest whose
   cost fits both (transfer-fee-reduced) maxima; the vault receives exactly that cost; the user pays the
   smallest fee-included amounts, within the maxima; the pool price is inside the caller's bounds.   *)
ByAmounts(pre, e, post) ==
  LET k    == APos(e)
      x    == pre.pos[k]
      p    == x.pool
      pool == pre.pool[p]
      L    == post.pos[k].liq -- x.liq
      td   == TokenDeltas(pool.tick, pool.sqrtPrice, x.lo, x.up, P(post, x.lo), P(post, x.up), L, TRUE)
      td2  == TokenDeltas(pool.tick, pool.sqrtPrice, x.lo, x.up, P(post, x.lo), P(post, x.up), L ++ 1, TRUE)
      cA   == TfCfg(pre, pool.mintA, e.epoch)
      cB   == TfCfg(pre, pool.mintB, e.epoch)
      netA == TfExcluded(cA, e.args.maxA)
      netB == TfExcluded(cB, e.args.maxB)
      paidA == 0 -- Delta(pre, post, e.slots.token_owner_account_a.id)
      paidB == 0 -- Delta(pre, post, e.slots.token_owner_account_b.id)
  IN /\ Sub("liquidity_positive", 0 \prec L)
     /\ Sub("price_within_bounds", e.args.minSp \preceq pool.sqrtPrice /\ pool.sqrtPrice \preceq e.args.maxSp)
     /\ Sub("vault_receives_exact", Delta(pre, post, e.slots.token_vault_a.id) \doteq td[1] /\ Delta(pre, post, e.slots.token_vault_b.id) \doteq td[2])
     /\ Sub("cost_fits_maxima", td[1] \preceq netA /\ td[2] \preceq netB)
     /\ Sub("largest_liquidity", netA \prec td2[1] \/ netB \prec td2[2])
     /\ Sub("request_is_smallest", TfInclOK(cA, td[1], [amount |-> paidA, fee |-> TfFee(cA, paidA)])
                                 /\ TfInclOK(cB, td[2], [amount |-> paidB, fee |-> TfFee(cB, paidB)]))
     /\ Sub("max_on_paid", paidA \preceq e.args.maxA /\ paidB \preceq e.args.maxB)
     /\ Sub("event", HasLiqEvent(e, "LiquidityIncreased") /\
            LET v == LiqEvent(e, "LiquidityIncreased") IN
              v.liq \doteq L /\ v.amountA \doteq paidA /\ v.amountB \doteq paidB /\ v.feeA \doteq TfFee(cA, paidA) /\ v.feeB \doteq TfFee(cB, paidB))

(* reposition_liquidity_v2 (C08 + C16): everything is withdrawn from the old range (rounded down), the new
   liquidity deposited into the new range (rounded up), and only the difference moves: the vault pays /
   receives exactly the difference, the user receives it less the transfer fee or pays the smallest
   fee-included amount; minima apply to the old range's amounts net of fee, maxima to the new range's
   amounts plus the fee paid.                                                                     *)
RepoToken(pre, e, post, c, old, new, ua, va, minT, maxT) ==
  LET dv == Delta(pre, post, va) du == Delta(pre, post, ua) IN
  /\ dv \doteq (new -- old)
  /\ IF new \prec old
     THEN du \doteq TfExcluded(c, old -- new) /\ new \preceq maxT
     ELSE LET paid == 0 -- du IN
          TfInclOK(c, new -- old, [amount |-> paid, fee |-> TfFee(c, paid)]) /\ (new ++ TfFee(c, paid)) \preceq maxT
  /\ minT \preceq TfExcluded(c, old)
Reposition(pre, e, post) ==
  LET k    == APos(e)
      x    == pre.pos[k]
      p    == x.pool
      pool == pre.pool[p]
      a    == e.args
      old  == IF x.liq \doteq 0 THEN <<0, 0>> ELSE TokenDeltas(pool.tick, pool.sqrtPrice, x.lo, x.up, P(pre, x.lo), P(pre, x.up), x.liq, FALSE)
      new  == TokenDeltas(pool.tick, pool.sqrtPrice, a.newLo, a.newUp, P(post, a.newLo), P(post, a.newUp), a.newLiq, TRUE)
      cA   == TfCfg(pre, pool.mintA, e.epoch)
      cB   == TfCfg(pre, pool.mintB, e.epoch)
  IN /\ Sub("token_a", RepoToken(pre, e, post, cA, old[1], new[1], e.slots.token_owner_account_a.id, e.slots.token_vault_a.id, a.minA, a.maxA))
     /\ Sub("token_b", RepoToken(pre, e, post, cB, old[2], new[2], e.slots.token_owner_account_b.id, e.slots.token_vault_b.id, a.minB, a.maxB))
     /\ Sub("position", post.pos[k].liq \doteq a.newLiq /\ post.pos[k].lo = a.newLo /\ post.pos[k].up = a.newUp)
     /\ Sub("price_untouched", post.pool[p].sqrtPrice \doteq pool.sqrtPrice /\ post.pool[p].tick = pool.tick)
     /\ Sub("event", HasLiqEvent(e, "LiquidityRepositioned") /\
            LET v == LiqEvent(e, "LiquidityRepositioned") IN
              v.oldA \doteq old[1] /\ v.oldB \doteq old[2] /\ v.newA \doteq new[1] /\ v.newB \doteq new[2]
              /\ v.oldLiq \doteq x.liq /\ v.newLiq \doteq a.newLiq)

(* C16, "the user-facing quantities reported in events equal the amounts moved": the LiquidityRepositioned record names, per token,
   the direction of the net transfer, the amount transferred (what the owner pays, fee included, or what the vault pays out) and the
   transfer fee withheld from it.                                                                                          *)
RepositionEventTransfers(pre, e, post) ==
  LET k    == APos(e)
      x    == pre.pos[k]
      pool == pre.pool[x.pool]
      a    == e.args
      old  == IF x.liq \doteq 0 THEN <<0, 0>> ELSE TokenDeltas(pool.tick, pool.sqrtPrice, x.lo, x.up, P(pre, x.lo), P(pre, x.up), x.liq, FALSE)
      new  == TokenDeltas(pool.tick, pool.sqrtPrice, a.newLo, a.newUp, P(post, a.newLo), P(post, a.newUp), a.newLiq, TRUE)
      cA   == TfCfg(pre, pool.mintA, e.epoch)
      cB   == TfCfg(pre, pool.mintB, e.epoch)
      One(c, o, n, ua, from, xfer, fee) ==
        /\ from = ~(n \prec o)
        /\ xfer \doteq (IF n \prec o THEN o -- n ELSE 0 -- Delta(pre, post, ua))
        /\ fee \doteq TfFee(c, xfer)
  IN HasLiqEvent(e, "LiquidityRepositioned") /\
     LET v == LiqEvent(e, "LiquidityRepositioned") IN
       /\ Sub("token_a", One(cA, old[1], new[1], e.slots.token_owner_account_a.id, v.fromOwnerA, v.xferA, v.feeA))
       /\ Sub("token_b", One(cB, old[2], new[2], e.slots.token_owner_account_b.id, v.fromOwnerB, v.xferB, v.feeB))
       /\ Sub("ids_and_ranges", v.pool = x.pool /\ v.pos = k /\ v.oldLo = x.lo /\ v.oldUp = x.up /\ v.newLo = a.newLo /\ v.newUp = a.newUp)

-----------------------------------------------------------------------------
(* C14: adaptive fees.  o = oracle record of the pool (constants + variables), g = tick group. *)
HardLimit == 100000
AfRefAfter(o, g0, now) ==      \* reference fields after update_reference at swap start
  LET maxTs == BMax(o.refTs, o.majorTs)
      age   == now -- o.refTs
      el    == now -- maxTs
  IN IF 3600 \prec age THEN [groupRef |-> g0, volRef |-> 0, refTs |-> now]
     ELSE IF el \prec o.filter THEN [groupRef |-> o.groupRef, volRef |-> o.volRef, refTs |-> o.refTs]
     ELSE IF el \prec o.decay THEN [groupRef |-> g0, volRef |-> BDiv(o.volAcc \otimes o.reduction, 10000), refTs |-> now]
     ELSE [groupRef |-> g0, volRef |-> 0, refTs |-> now]
\* (WpMath!AfAccOf / AfRateOf / AfTotalOf are shared with the toy-scale model AdaptiveFee.tla)
AfDen == (100000 \otimes 10000) \otimes 10000
AfAcc(o, ref, g) == AfAccOf(ref.volRef, ref.groupRef, g, 10000, o.maxAcc)
AfAdaptiveRate(o, acc) == AfRateOf(o.factor, o.groupSize, acc, AfDen, HardLimit)
AfTotalRate(o, static, acc) == AfTotalOf(static, o.factor, o.groupSize, acc, AfDen, HardLimit)
Clamp(x, lo, hi) == IF x \prec lo THEN lo ELSE IF hi \prec x THEN hi ELSE x

C14Swap(pre, e, post) ==
  LET sw   == e.swaps[1]
      p    == APool(e)
      o    == pre.oracle[p]
      o2   == post.oracle[p]
      st_  == pre.pool[p].feeRate
      ref  == AfRefAfter(o, sw.startGroup, e.now)
      dir  == IF e.args.aToB THEN -1 ELSE 1
      ends == {sw.endGroup} \cup (IF sw.endOnBoundary THEN {sw.endGroup - 1} ELSE {})
      okG  == ends \cup {g + dir : g \in ends}
      lo_  == BMin(pre.pool[p].sqrtPrice, post.pool[p].sqrtPrice)
      hi_  == BMax(pre.pool[p].sqrtPrice, post.pool[p].sqrtPrice)
      major == BDiv(lo_ \otimes sw.majorFactor, BPow2(64)) \preceq hi_
  IN /\ Sub("one_swap_record", Len(e.swaps) = 1 /\ sw.done)
     /\ Sub("trade_enabled", o.tradeEnableTs \preceq e.now)
     /\ Sub("timestamp_valid", BMax(o.refTs, o.majorTs) \preceq e.now)
     /\ Sub("reference_rules", o2.groupRef = ref.groupRef /\ o2.volRef \doteq ref.volRef /\ o2.refTs \doteq ref.refTs)
     \* every part of the swap is charged static + adaptive(rate of that price's tick group)
     /\ Sub("rate_of_every_group", \A i \in DOMAIN sw.steps :
            LET s == sw.steps[i] IN
            (s.moved /\ ~(s.liq \doteq 0)) =>
               \A g \in {s.gmin, s.gmax, Clamp(ref.groupRef, s.gmin, s.gmax)} : s.rate \doteq AfTotalRate(o, st_, AfAcc(o, ref, g)))
     /\ Sub("rate_bounds", \A i \in DOMAIN sw.steps : st_ \preceq sw.steps[i].rate /\ sw.steps[i].rate \preceq HardLimit)
     /\ Sub("accumulator_capped", o2.volAcc \preceq o.maxAcc)
     /\ Sub("accumulator_of_end_group", \E g \in okG : o2.volAcc \doteq AfAcc(o, ref, g))
     /\ Sub("major_swap_timestamp", o2.majorTs \doteq (IF major THEN e.now ELSE o.majorTs))
     /\ Sub("zero_factor_is_static", (o.factor = 0) => \A i \in DOMAIN sw.steps : sw.steps[i].rate \doteq st_)
     /\ Sub("constants_untouched", o2.filter = o.filter /\ o2.decay = o.decay /\ o2.reduction = o.reduction /\ o2.factor = o.factor
                                   /\ o2.maxAcc \doteq o.maxAcc /\ o2.groupSize = o.groupSize /\ o2.majorTicks = o.majorTicks)

-----------------------------------------------------------------------------
(* ghost update *)
SegAfter(pre, e, post) ==
  \* cumulative trader gains per pool over a run of swaps
  IF e.ok /\ IsSwapName(e.name)
  THEN LET p    == APool(e)
           last == IF p \in DOMAIN gh.seg /\ Len(gh.seg[p]) > 0 THEN gh.seg[p][Len(gh.seg[p])] ELSE <<0, 0>>
           base == IF p \in DOMAIN gh.seg /\ Len(gh.seg[p]) > 0 THEN gh.seg[p] ELSE << <<0, 0>> >>
           da   == Delta(pre, post, e.slots.token_owner_account_a.id)
           db   == Delta(pre, post, e.slots.token_owner_account_b.id)
       IN MergeFn(gh.seg, [q \in {p} |-> Append(base, <<last[1] ++ da, last[2] ++ db>>)])
  ELSE IF e.ok /\ Has(e.args, "pool") /\ ~IsSwapName(e.name) THEN MergeFn(gh.seg, [q \in {APool(e)} |-> <<>>])
  ELSE IF e.ok /\ Has(e.args, "pos") /\ APos(e) \in DOMAIN pre.pos
       THEN MergeFn(gh.seg, [q \in {pre.pos[APos(e)].pool} |-> <<>>])
  ELSE gh.seg

-----------------------------------------------------------------------------
(* C12: the Anchor handler (run on a copy of the bank through a dispatcher that bypasses the
   Pinocchio routing) and the Pinocchio handler (the real run) agree on the return code, on every
   byte of every account, and on the emitted events.                                           *)
DualOK(e) ==
  \/ ~e.dual.present
  \/ /\ Sub("same_error", e.dual.codeAnchor \doteq e.dual.codePino)
     /\ Sub("no_panic", ~e.dual.panicAnchor /\ ~e.dual.panicPino)
     /\ Sub("same_bytes", e.dual.differing = <<>>)
     /\ Sub("same_events", e.dual.sameEvents)

(* C17: a two-hop swap equals its two single swaps with a matching intermediate amount.  The harness
   executes, on copies of the bank, the two-hop and the two single swaps (second leg's input := first
   leg's realised output; exact-out: first leg's output := second leg's realised input) and
   compares every account of the two banks.                                                     *)
C17TwoHop(pre, e, post) ==
  LET th == e.twohop
      paid == 0 -- Delta(pre, post, th.acctIn)
      got  == Delta(pre, post, th.acctOut)
  IN th.present =>
     /\ Sub("both_legs_succeed_alone", th.s1.ok /\ th.s2.ok)
     /\ Sub("intermediate_amounts_match", th.s1.out \doteq th.s2.in)
     /\ Sub("same_state_as_single_swaps", th.differing = <<>>)
     /\ Sub("pays_first_leg_input", th.distinct => paid \doteq th.s1.in)
     /\ Sub("receives_second_leg_output", th.distinct => got \doteq th.s2.out)
     /\ Sub("intermediate_nets_to_zero", th.distinct => Delta(pre, post, th.acctMid) \doteq 0)
     /\ Sub("threshold", IF e.args.exactIn THEN e.args.threshold \preceq got ELSE paid \preceq e.args.threshold)
     /\ Sub("amount_bound", IF e.args.exactIn THEN paid \preceq e.args.amount ELSE got \preceq e.args.amount)

(* C03 for two-hop swaps: each leg moves its pool's price only in its trade direction, within the protocol
   bounds and not beyond that leg's limit; the specified side is used in full unless the price limit of
   the specified leg was reached (exact-in: leg one, exact-out: leg two); thresholds and the amount bound
   apply to what the trader actually pays / receives.                                             *)
C03Leg(pre, post, q, aToB, limit) ==
  LET p0  == pre.pool[q].sqrtPrice
      p1  == post.pool[q].sqrtPrice
      lim == IF limit \doteq 0 THEN (IF aToB THEN MinSqrtPrice ELSE MaxSqrtPrice) ELSE limit
  IN /\ IF aToB THEN p1 \preceq p0 ELSE p0 \preceq p1
     /\ MinSqrtPrice \preceq p1 /\ p1 \preceq MaxSqrtPrice
     /\ IF aToB THEN lim \preceq p1 ELSE p1 \preceq lim
LegAtLimit(post, q, aToB, limit) ==
  post.pool[q].sqrtPrice \doteq (IF limit \doteq 0 THEN (IF aToB THEN MinSqrtPrice ELSE MaxSqrtPrice) ELSE limit)
C03TwoHop(pre, e, post) ==
  LET a    == e.args
      th   == e.twohop
      q1   == e.slots.whirlpool_one.id
      q2   == e.slots.whirlpool_two.id
      paid == 0 -- Delta(pre, post, th.acctIn)
      got  == Delta(pre, post, th.acctOut)
  IN th.present =>
     /\ Sub("leg_one_price", C03Leg(pre, post, q1, a.aToB1, a.limit1))
     /\ Sub("leg_two_price", C03Leg(pre, post, q2, a.aToB2, a.limit2))
     /\ Sub("amount_bound", IF a.exactIn THEN paid \preceq a.amount ELSE got \preceq a.amount)
     /\ Sub("less_only_at_limit", IF a.exactIn THEN (paid \prec a.amount => LegAtLimit(post, q1, a.aToB1, a.limit1))
                                                ELSE (got \prec a.amount => LegAtLimit(post, q2, a.aToB2, a.limit2)))
     /\ Sub("exact_out_without_limit_is_full", (~a.exactIn /\ a.limit2 \doteq 0) => got \doteq a.amount)
     /\ Sub("threshold", IF a.exactIn THEN a.threshold \preceq got ELSE paid \preceq a.threshold)
     /\ Sub("positive_amount", 0 \prec a.amount)

(* C10: a swap crosses exactly the initialized ticks in its path.  Stated on tick indexes: going
   down, a crossing of T leaves tick_current = T - 1, so the ticks crossed are the initialized T with
   post.tick < T <= pre.tick; going up, crossing T leaves tick_current = T: pre.tick < T <= post.tick.
   `Initialized' ranges over ALL ticks of the pool in the abstract state, whether or not the array
   holding them was supplied - a swap that skips liquidity because of its packaging violates this. *)
InitTicksOf(s, p) == {s.tick[k].idx : k \in {k \in DOMAIN s.tick : s.tick[k].pool = p /\ s.tick[k].init}}
C10PathOf(pre, post, p, sw, aToB) ==
  LET expect == IF aToB THEN {t \in InitTicksOf(pre, p) : post.pool[p].tick < t /\ t <= pre.pool[p].tick}
                ELSE {t \in InitTicksOf(pre, p) : pre.pool[p].tick < t /\ t <= post.pool[p].tick}
      cr == SelectSeq(sw.steps, LAMBDA s_ : "crossed" \in DOMAIN s_)
      crTicks == [i \in DOMAIN cr |-> cr[i].crossed.tick]
      netSum == SeqSum(cr, LAMBDA s_ : s_.crossed.net)
  IN /\ Sub("crossed_set", {crTicks[i] : i \in DOMAIN crTicks} = expect)
     /\ Sub("each_once", Len(crTicks) = Cardinality(expect))
     /\ Sub("in_price_order", \A i \in 1..(Len(crTicks) - 1) : IF aToB THEN crTicks[i + 1] < crTicks[i] ELSE crTicks[i] < crTicks[i + 1])
     /\ Sub("net_of_the_tick", \A i \in DOMAIN cr : cr[i].crossed.net \doteq TickOf(pre, p, cr[i].crossed.tick).net)
     /\ Sub("liquidity_change", post.pool[p].liq \doteq (IF aToB THEN pre.pool[p].liq -- netSum ELSE pre.pool[p].liq ++ netSum))
     /\ Sub("no_step_jumps_a_tick", \A i \in DOMAIN sw.steps :
            LET s_ == sw.steps[i] IN
            ~\E t \in InitTicksOf(pre, p) :     \* an initialized tick strictly inside the step's price segment
                 IF aToB THEN s_.p1 \prec P(pre, t) /\ P(pre, t) \prec s_.p0 ELSE s_.p0 \prec P(pre, t) /\ P(pre, t) \prec s_.p1)

C10Swap(pre, e, post) ==
  /\ Sub("one_swap_record", Len(e.swaps) = 1 /\ e.swaps[1].done)
  \* the current tick index follows the trade direction (a swap that cannot move the price leaves it alone):
  \* otherwise a tick already crossed would be crossed again, or skipped on the way back
  /\ Sub("tick_moves_in_trade_direction", IF e.args.aToB THEN post.pool[APool(e)].tick <= pre.pool[APool(e)].tick
                                                          ELSE pre.pool[APool(e)].tick <= post.pool[APool(e)].tick)
  /\ C10PathOf(pre, post, APool(e), e.swaps[1], e.args.aToB)

C10Pack(pre, e) ==
  e.pack.present =>
    /\ Sub("same_outcome_however_packaged", e.pack.expectSame => e.pack.result = e.pack.ref)
    /\ Sub("fails_rather_than_skip", (e.pack.truncated /\ e.pack.result.ok) => e.pack.result = e.pack.ref)
    /\ Sub("foreign_array_rejected", e.pack.foreign => ~e.pack.result.ok)

(* C18: position life cycle *)
FullRangeOnly(pool) == pool.spacing >= 32768
FullLo(sp) == 0 - ((443636 \div sp) * sp)
FullHi(sp) == (443636 \div sp) * sp
ValidRange(pool, lo, up) ==
  /\ lo < up /\ lo % pool.spacing = 0 /\ up % pool.spacing = 0 /\ lo >= -443636 /\ up <= 443636
  /\ FullRangeOnly(pool) => (lo = FullLo(pool.spacing) /\ up = FullHi(pool.spacing))
(* the tick whose price interval contains the pool price (the stored tick is one less in the shifted state) *)
PriceTick(s, p) == IF s.pool[p].sqrtPrice \doteq P(s, s.pool[p].tick + 1) THEN s.pool[p].tick + 1 ELSE s.pool[p].tick
OnTick(s, p) == s.pool[p].sqrtPrice \doteq P(s, PriceTick(s, p))
SnapDown(t, sp) == t - (t % sp)
SnapUp(t, sp) == IF t % sp = 0 THEN t ELSE t + (sp - (t % sp))
IntMin == (0 - 2147483647) - 1
IntMax == 2147483647
ExpectedRange(s, p, lo, up) ==   \* a sentinel bound is derived from the price: nearest usable tick keeping the position on one side
  LET pool == s.pool[p] IN
  IF FullRangeOnly(pool) \/ (lo # IntMin /\ up # IntMax) THEN <<lo, up>>
  ELSE << IF lo = IntMin THEN SnapUp(IF OnTick(s, p) THEN PriceTick(s, p) ELSE PriceTick(s, p) + 1, pool.spacing) ELSE lo,
          IF up = IntMax THEN SnapDown(PriceTick(s, p), pool.spacing) ELSE up >>

PosEmpty(x) == x.liq \doteq 0 /\ x.owedA \doteq 0 /\ x.owedB \doteq 0 /\ \A i \in 1..3 : x.rw[i].owed \doteq 0
Frozen(s, ta) == ta \in DOMAIN s.tok /\ s.tok[ta].state = 2

OpenNames == {"open_position", "open_position_with_metadata", "open_position_with_token_extensions", "open_bundled_position"}
C18Open(pre, e, post) ==
  LET k == APos(e) p == APool(e) IN
  /\ Sub("created", k \notin DOMAIN pre.pos /\ k \in DOMAIN post.pos /\ post.pos[k].pool = p)
  /\ Sub("not_both_derived", ~(e.args.lo = IntMin /\ e.args.up = IntMax) \/ FullRangeOnly(pre.pool[p]))
  /\ LET x == post.pos[k] er == ExpectedRange(pre, p, e.args.lo, e.args.up) IN
       /\ Sub("range_as_requested_or_derived", x.lo = er[1] /\ x.up = er[2])
       /\ Sub("range_valid", ValidRange(pre.pool[p], x.lo, x.up))
       /\ Sub("starts_empty", PosEmpty(x) /\ x.cpA \doteq 0 /\ x.cpB \doteq 0 /\ \A i \in 1..3 : x.rw[i].cp \doteq 0)
       /\ IF e.name = "open_bundled_position" THEN TRUE
          ELSE /\ Sub("one_token_minted", x.mint \in DOMAIN post.mint /\ post.mint[x.mint].supply \doteq 1)
               /\ Sub("no_mint_authority", post.mint[x.mint].auth = "none")
               /\ Sub("owner_holds_it", LET ta == e.slots.position_token_account.id IN
                         ta \in DOMAIN post.tok /\ post.tok[ta].mint = x.mint /\ post.tok[ta].amount \doteq 1 /\ post.tok[ta].owner = e.slots.owner.id)

CloseNames == {"close_position", "close_position_with_token_extensions", "close_bundled_position"}
C18Close(pre, e, post) ==
  LET k == IF e.name = "close_bundled_position" THEN e.slots.bundled_position.id ELSE e.slots.position.id IN
  /\ Sub("existed", k \in DOMAIN pre.pos)
  /\ Sub("only_when_empty", PosEmpty(pre.pos[k]))
  /\ Sub("removed", k \notin DOMAIN post.pos)
  /\ Sub("not_locked", e.name = "close_bundled_position" \/ ~Frozen(pre, e.slots.position_token_account.id))

C18Reset(pre, e, post) ==
  LET k == e.slots.position.id x == pre.pos[k] y == post.pos[k] IN
  /\ Sub("only_when_empty", PosEmpty(x))
  /\ Sub("different_range", ~(y.lo = x.lo /\ y.up = x.up))
  /\ Sub("range_valid", ValidRange(pre.pool[x.pool], y.lo, y.up) /\ y.lo = e.args.lo /\ y.up = e.args.up)
  /\ Sub("checkpoints_reset", y.cpA \doteq 0 /\ y.cpB \doteq 0 /\ \A i \in 1..3 : y.rw[i].cp \doteq 0)
  /\ Sub("still_empty", PosEmpty(y))
  /\ Sub("not_locked", ~Frozen(pre, e.slots.position_token_account.id))

C18Reposition(pre, e, post) ==
  LET k == e.slots.position.id x == pre.pos[k] y == post.pos[k] IN
  /\ Sub("range_valid", ValidRange(pre.pool[x.pool], y.lo, y.up) /\ y.lo = e.args.newLo /\ y.up = e.args.newUp)
  /\ Sub("different_range", ~(y.lo = x.lo /\ y.up = x.up))
  /\ Sub("not_locked", ~Frozen(pre, e.slots.position_token_account.id))

C18Lock(pre, e, post) ==
  LET k == e.slots.position.id ta == e.slots.position_token_account.id IN
  /\ Sub("only_with_liquidity", ~(pre.pos[k].liq \doteq 0))
  /\ Sub("token_frozen", Frozen(post, ta) /\ ~Frozen(pre, ta))
  /\ Sub("lock_config", k \in DOMAIN post.lock /\ post.lock[k].owner = pre.tok[ta].owner /\ post.lock[k].pool = pre.pos[k].pool)

C18TransferLocked(pre, e, post) ==
  LET k == e.slots.position.id src == e.slots.position_token_account.id dst == e.slots.destination_token_account.id IN
  /\ Sub("was_locked", Frozen(pre, src) /\ k \in DOMAIN pre.lock)
  /\ Sub("stays_locked", Frozen(post, dst) /\ post.tok[dst].amount \doteq 1 /\ post.tok[dst].mint = pre.pos[k].mint)
  /\ Sub("source_emptied", src \notin DOMAIN post.tok \/ post.tok[src].amount \doteq 0)
  /\ Sub("lock_owner_updated", post.lock[k].owner = post.tok[dst].owner)
  /\ Sub("liquidity_untouched", post.pos[k].liq \doteq pre.pos[k].liq)

C18Bundle(pre, e, post) ==
  LET b == e.slots.position_bundle.id IN
  CASE e.name = "open_bundled_position" ->
         Sub("bit_flipped_on", {post.bundle[b].open[i] : i \in DOMAIN post.bundle[b].open} = {pre.bundle[b].open[i] : i \in DOMAIN pre.bundle[b].open} \cup {e.args.index}
                               /\ e.args.index \notin {pre.bundle[b].open[i] : i \in DOMAIN pre.bundle[b].open})
    [] e.name = "close_bundled_position" ->
         Sub("bit_flipped_off", {post.bundle[b].open[i] : i \in DOMAIN post.bundle[b].open} = {pre.bundle[b].open[i] : i \in DOMAIN pre.bundle[b].open} \ {e.args.index}
                               /\ e.args.index \in {pre.bundle[b].open[i] : i \in DOMAIN pre.bundle[b].open})
    [] e.name = "delete_position_bundle" -> Sub("deleted_only_when_none_open", pre.bundle[b].open = <<>> /\ b \notin DOMAIN post.bundle)
    [] OTHER -> TRUE

(* state invariants of the life cycle *)
C18State(s) ==
  /\ Sub("bitmap_exact", \A b \in DOMAIN s.bundle : s.bundle[b].open = s.bundle[b].existing)
  /\ Sub("locked_has_liquidity", \A k \in DOMAIN s.lock : k \in DOMAIN s.pos /\ ~(s.pos[k].liq \doteq 0))
  /\ Sub("ranges_valid", \A k \in DOMAIN s.pos :
         LET x == s.pos[k] IN
         (x.pool \in DOMAIN s.pool) =>
           LET sp_ == s.pool[x.pool].spacing
               fr  == (443636 \div sp_) * sp_
           IN /\ x.lo < x.up /\ x.lo % sp_ = 0 /\ x.up % sp_ = 0 /\ (0 - 443636) <= x.lo /\ x.up <= 443636
              /\ (sp_ >= 32768 => (x.lo = 0 - fr /\ x.up = fr)))
  /\ Sub("position_token_supply_one", \A k \in DOMAIN s.pos :
         LET m == s.pos[k].mint IN (m \in DOMAIN s.mint /\ ~(\E b \in DOMAIN s.bundle : s.bundle[b].mint = m)) => (s.mint[m].supply \doteq 1 /\ s.mint[m].auth = "none"))

LockedForbidden == {"decrease_liquidity", "decrease_liquidity_v2", "close_position", "close_position_with_token_extensions", "reset_position_range", "reposition_liquidity_v2"}
C18Event(pre, e, post) ==
  /\ (e.name \in OpenNames) => C18Open(pre, e, post)
  /\ (e.name \in CloseNames) => C18Close(pre, e, post)
  /\ (e.name = "reset_position_range") => C18Reset(pre, e, post)
  /\ (e.name = "reposition_liquidity_v2") => C18Reposition(pre, e, post)
  /\ (e.name = "lock_position") => C18Lock(pre, e, post)
  /\ (e.name = "transfer_locked_position") => C18TransferLocked(pre, e, post)
  /\ (e.name \in {"open_bundled_position", "close_bundled_position", "delete_position_bundle"}) => C18Bundle(pre, e, post)
  /\ (e.name \in LockedForbidden /\ "position_token_account" \in DOMAIN e.slots) => Sub("locked_position_untouchable", ~Frozen(pre, e.slots.position_token_account.id))
  /\ C18State(post)

(* C19: parameters in bounds (state invariant) and mint admission *)
ValidAfConstants(sp, c) ==
  /\ c.filter >= 1 /\ c.decay > c.filter /\ c.factor < 100000 /\ c.reduction < 10000
  /\ (c.maxAcc \otimes c.groupSize) \preceq "4294967295"
  /\ c.groupSize >= 1 /\ c.groupSize <= sp /\ sp % c.groupSize = 0
  /\ c.majorTicks >= 1 /\ c.majorTicks <= sp * 88
C19State(s) ==
  /\ Sub("pool_bounds", \A p \in DOMAIN s.pool :
         /\ s.pool[p].feeRate <= 60000 /\ s.pool[p].protoRate <= 2500 /\ s.pool[p].spacing > 0 /\ s.pool[p].mintsOrdered
         /\ MinSqrtPrice \preceq s.pool[p].sqrtPrice /\ s.pool[p].sqrtPrice \preceq MaxSqrtPrice)
  /\ Sub("tier_bounds", \A t \in DOMAIN s.tier : s.tier[t].defaultFeeRate <= 60000 /\ s.tier[t].spacing > 0)
  /\ Sub("adaptive_tier_bounds", \A t \in DOMAIN s.atier : s.atier[t].baseFeeRate <= 60000 /\ s.atier[t].spacing > 0 /\ ValidAfConstants(s.atier[t].spacing, s.atier[t]))
  /\ Sub("oracle_constants", \A p \in DOMAIN s.oracle : p \in DOMAIN s.pool => ValidAfConstants(s.pool[p].spacing, s.oracle[p]))

MintRec(s, m) == [prog |-> s.mint[m].prog, exts |-> s.mint[m].exts, freeze |-> s.mint[m].freeze, defaultState |-> s.mint[m].defaultState,
                  tlvOk |-> s.mint[m].tlvOk, native |-> s.mint[m].native]
Badged(s, cfg, m) == \E b \in DOMAIN s.badge : s.badge[b].cfg = cfg /\ s.badge[b].mint = m
MintOK(s, cfg, m) == m \in DOMAIN s.mint /\ s.mint[m].init /\ Admitted(MintRec(s, m), Badged(s, cfg, m))
C19Admission(pre, e) ==
  CASE e.name \in {"initialize_pool_v2", "initialize_pool_with_adaptive_fee"} ->
         Sub("pool_mints_admitted", MintOK(pre, e.slots.whirlpools_config.id, e.slots.token_mint_a.id) /\ MintOK(pre, e.slots.whirlpools_config.id, e.slots.token_mint_b.id))
    [] e.name = "initialize_reward_v2" ->
         Sub("reward_mint_admitted", e.slots.whirlpool.id \in DOMAIN pre.pool /\ MintOK(pre, pre.pool[e.slots.whirlpool.id].cfg, e.slots.reward_mint.id))
    [] e.name = "initialize_pool" ->
         Sub("v1_pool_spl_only", \A m \in {e.slots.token_mint_a.id, e.slots.token_mint_b.id} : m \in DOMAIN pre.mint /\ pre.mint[m].prog = "spl")
    [] e.name = "initialize_reward" ->
         Sub("v1_reward_spl_only", e.slots.reward_mint.id \in DOMAIN pre.mint /\ pre.mint[e.slots.reward_mint.id].prog = "spl")
    [] OTHER -> TRUE

(* C20: SDK quote vs program.  e.sdk is the result of orca_whirlpools_core::compute_swap on facades
   built from the pre-state account bytes, for the same inner swap call the program made (amount,
   limit, mode, direction, timestamp as recorded by the swap hook).                               *)
C20Quote(e) ==
  (e.sdk.present /\ Len(e.swaps) = 1) =>
    LET sw == e.swaps[1] IN
    IF sw.done
    THEN /\ Sub("sdk_succeeds_where_program_does", e.sdk.ok)
         /\ Sub("same_amounts", e.sdk.a \doteq sw.result.amount_a /\ e.sdk.b \doteq sw.result.amount_b)
         /\ Sub("same_total_fee", e.sdk.fee \doteq SumFee(sw))
    ELSE \* the program refused the swap computation: the SDK may still produce a number only for a partial
         \* exact-out fill (program: PartialFillError 6057) or for running off the supplied arrays (6038 / 6023)
         Sub("sdk_number_only_for_allowed_reasons", e.sdk.ok => (e.err \doteq 6057 \/ e.err \doteq 6038 \/ e.err \doteq 6023))

-----------------------------------------------------------------------------
(* Setters: a successful setter changes exactly the designated field of the designated account to the
   given value and nothing else anywhere (beyond the listed properties: part of the specification of the
   system's behaviour; reported under C04 "change settings").                                     *)
OnlyKey(e, sec, key) == \A s_ \in Sections : ChangedKeys(e.diff, s_) \subseteq (IF s_ = sec THEN {key} ELSE {})
SetField(pre, post, sec, key, field, val) ==
  /\ key \in DOMAIN pre[sec] /\ key \in DOMAIN post[sec]
  /\ post[sec][key] = [pre[sec][key] EXCEPT ![field] = val]
SetterEffect(pre, e, post) ==
  LET n == e.name a == e.args IN
  CASE n \in {"set_fee_rate", "set_fee_rate_by_delegated_fee_authority"} ->
         OnlyKey(e, "pool", Id(e, "whirlpool")) /\ SetField(pre, post, "pool", Id(e, "whirlpool"), "feeRate", a.rate)
    [] n = "set_protocol_fee_rate" ->
         OnlyKey(e, "pool", Id(e, "whirlpool")) /\ SetField(pre, post, "pool", Id(e, "whirlpool"), "protoRate", a.rate)
    [] n = "set_default_fee_rate" ->
         OnlyKey(e, "tier", Id(e, "fee_tier")) /\ SetField(pre, post, "tier", Id(e, "fee_tier"), "defaultFeeRate", a.rate)
    [] n = "set_default_protocol_fee_rate" ->
         OnlyKey(e, "cfg", Id(e, "whirlpools_config")) /\ SetField(pre, post, "cfg", Id(e, "whirlpools_config"), "defaultProtoRate", a.rate)
    [] n = "set_fee_authority" ->
         OnlyKey(e, "cfg", Id(e, "whirlpools_config")) /\ SetField(pre, post, "cfg", Id(e, "whirlpools_config"), "feeAuth", Id(e, "new_fee_authority"))
    [] n = "set_collect_protocol_fees_authority" ->
         OnlyKey(e, "cfg", Id(e, "whirlpools_config")) /\ SetField(pre, post, "cfg", Id(e, "whirlpools_config"), "collectAuth", Id(e, "new_collect_protocol_fees_authority"))
    [] n = "set_reward_emissions_super_authority" ->
         OnlyKey(e, "cfg", Id(e, "whirlpools_config")) /\ SetField(pre, post, "cfg", Id(e, "whirlpools_config"), "rewardSuperAuth", Id(e, "new_reward_emissions_super_authority"))
    [] n \in {"set_reward_authority", "set_reward_authority_by_super_authority"} ->
         OnlyKey(e, "pool", Id(e, "whirlpool")) /\ SetField(pre, post, "pool", Id(e, "whirlpool"), "rewardAuth", Id(e, "new_reward_authority"))
    [] n = "set_default_base_fee_rate" ->
         OnlyKey(e, "atier", Id(e, "adaptive_fee_tier")) /\ SetField(pre, post, "atier", Id(e, "adaptive_fee_tier"), "baseFeeRate", a.rate)
    [] n = "set_delegated_fee_authority" ->
         OnlyKey(e, "atier", Id(e, "adaptive_fee_tier")) /\ SetField(pre, post, "atier", Id(e, "adaptive_fee_tier"), "delegatedFeeAuth", Id(e, "new_delegated_fee_authority"))
    [] n = "set_initialize_pool_authority" ->
         OnlyKey(e, "atier", Id(e, "adaptive_fee_tier")) /\ SetField(pre, post, "atier", Id(e, "adaptive_fee_tier"), "initPoolAuth", Id(e, "new_initialize_pool_authority"))
    [] n = "set_config_extension_authority" ->
         OnlyKey(e, "ext", Id(e, "whirlpools_config_extension")) /\ SetField(pre, post, "ext", Id(e, "whirlpools_config_extension"), "extAuth", Id(e, "new_config_extension_authority"))
    [] n = "set_token_badge_authority" ->
         OnlyKey(e, "ext", Id(e, "whirlpools_config_extension")) /\ SetField(pre, post, "ext", Id(e, "whirlpools_config_extension"), "badgeAuth", Id(e, "new_token_badge_authority"))
    [] n = "set_token_badge_attribute" ->
         OnlyKey(e, "badge", Id(e, "token_badge")) /\ SetField(pre, post, "badge", Id(e, "token_badge"), "nonTransferablePos", a.value)
    [] n = "set_config_feature_flag" ->
         \* the token-badge feature is bit 0 of the config's flags; the other bits and everything else stay
         LET c == Id(e, "whirlpools_config") f == pre.cfg[c].flags IN
         /\ \A s_ \in Sections : ChangedKeys(e.diff, s_) \subseteq (IF s_ = "cfg" THEN {c} ELSE {})
         /\ post.cfg[c] = [pre.cfg[c] EXCEPT !.flags = IF a.enabled THEN (IF f % 2 = 1 THEN f ELSE f + 1) ELSE (IF f % 2 = 1 THEN f - 1 ELSE f)]
    [] n = "set_preset_adaptive_fee_constants" ->
         LET t == Id(e, "adaptive_fee_tier") c == a.constants IN
         /\ OnlyKey(e, "atier", t) /\ t \in DOMAIN post.atier
         /\ post.atier[t] = [pre.atier[t] EXCEPT !.filter = c.filter, !.decay = c.decay, !.reduction = c.reduction, !.factor = c.factor,
                                                  !.maxAcc = c.maxAcc, !.groupSize = c.groupSize, !.majorTicks = c.majorTicks]
    [] n = "set_adaptive_fee_constants" ->
         \* the selected constants take the given values, the others stay; the volatility variables restart from zero
         LET p == Id(e, "whirlpool") o == pre.oracle[p] o2 == post.oracle[p] c == a.constants
             Bit(k) == (a.which \div (2 ^ k)) % 2 = 1
         IN /\ OnlyKey(e, "oracle", p) /\ p \in DOMAIN post.oracle
            /\ o2.filter = (IF Bit(0) THEN c.filter ELSE o.filter) /\ o2.decay = (IF Bit(1) THEN c.decay ELSE o.decay)
            /\ o2.reduction = (IF Bit(2) THEN c.reduction ELSE o.reduction) /\ o2.factor = (IF Bit(3) THEN c.factor ELSE o.factor)
            /\ o2.maxAcc \doteq (IF Bit(4) THEN c.maxAcc ELSE o.maxAcc) /\ o2.groupSize = (IF Bit(5) THEN c.groupSize ELSE o.groupSize)
            /\ o2.majorTicks = (IF Bit(6) THEN c.majorTicks ELSE o.majorTicks)
            /\ o2.volAcc \doteq 0 /\ o2.volRef \doteq 0 /\ o2.groupRef = 0 /\ o2.refTs \doteq 0 /\ o2.majorTs \doteq 0
            /\ o2.tradeEnableTs \doteq o.tradeEnableTs
    [] OTHER -> TRUE

(* Pool creation: the new pool takes its parameters from the fee tier and the config it is created under,
   starts empty at the given price (with the tick of that price), over the given mints and vaults; an
   adaptive-fee pool gets an oracle carrying the tier's constants.                                  *)
InitPoolEffect(pre, e, post) ==
  LET q   == Id(e, "whirlpool")
      c   == Id(e, "whirlpools_config")
      ad  == e.name = "initialize_pool_with_adaptive_fee"
      t   == IF ad THEN Id(e, "adaptive_fee_tier") ELSE Id(e, "fee_tier")
      tr  == IF ad THEN pre.atier[t] ELSE pre.tier[t]
      r   == post.pool[q]
      va  == Id(e, "token_vault_a")
      vb  == Id(e, "token_vault_b")
  IN /\ Sub("new_pool", q \notin DOMAIN pre.pool /\ q \in DOMAIN post.pool)
     /\ Sub("of_config_and_mints", r.cfg = c /\ r.mintA = Id(e, "token_mint_a") /\ r.mintB = Id(e, "token_mint_b") /\ r.vaultA = va /\ r.vaultB = vb)
     /\ Sub("tier_parameters", r.spacing = tr.spacing /\ r.feeRate = (IF ad THEN tr.baseFeeRate ELSE tr.defaultFeeRate)
                               /\ r.tierIndex = (IF ad THEN tr.index ELSE tr.spacing))
     /\ Sub("config_parameters", r.protoRate = pre.cfg[c].defaultProtoRate /\ r.rewardAuth = pre.cfg[c].rewardSuperAuth)
     /\ Sub("price_and_tick", r.sqrtPrice \doteq e.args.sqrtPrice /\ P(post, r.tick) \preceq r.sqrtPrice
                              /\ (r.tick < 443636 => r.sqrtPrice \prec P(post, r.tick + 1)))
     /\ Sub("starts_empty", r.liq \doteq 0 /\ r.fgA \doteq 0 /\ r.fgB \doteq 0 /\ r.protoA \doteq 0 /\ r.protoB \doteq 0
                            /\ \A i \in 1..3 : ~r.rewards[i].init /\ r.rewards[i].emissions \doteq 0 /\ r.rewards[i].growth \doteq 0)
     /\ Sub("vaults", /\ va \in DOMAIN post.tok /\ vb \in DOMAIN post.tok /\ va # vb
                      /\ post.tok[va].mint = r.mintA /\ post.tok[vb].mint = r.mintB
                      /\ post.tok[va].owner = q /\ post.tok[vb].owner = q
                      /\ post.tok[va].amount \doteq 0 /\ post.tok[vb].amount \doteq 0
                      /\ post.tok[va].delegate = "none" /\ post.tok[vb].delegate = "none"
                      /\ post.tok[va].close = "none" /\ post.tok[vb].close = "none")
     /\ Sub("oracle", IF ad
                      THEN /\ q \in DOMAIN post.oracle
                           /\ LET o == post.oracle[q] IN
                              /\ o.filter = tr.filter /\ o.decay = tr.decay /\ o.reduction = tr.reduction /\ o.factor = tr.factor
                              /\ o.maxAcc \doteq tr.maxAcc /\ o.groupSize = tr.groupSize /\ o.majorTicks = tr.majorTicks
                              /\ o.volAcc \doteq 0 /\ o.volRef \doteq 0 /\ o.groupRef = 0
                      ELSE q \notin DOMAIN post.oracle)
     /\ Sub("nothing_else", ChangedKeys(e.diff, "pool") = {q} /\ ChangedKeys(e.diff, "cfg") = {} /\ ChangedKeys(e.diff, "tier") = {}
                            /\ ChangedKeys(e.diff, "atier") = {} /\ ChangedKeys(e.diff, "pos") = {} /\ ChangedKeys(e.diff, "tick") = {})

(* C20, user level: swap_quote_by_input_token / swap_quote_by_output_token (transfer fees of both mints
   applied, no price limit) against what the trader really paid and received in a swap submitted
   without a price limit; the slippage-adjusted bound is on the safe side of the estimate.           *)
C20QuoteUser(pre, e, post) ==
  LET u    == e.sdkUser
      paid == 0 -- Delta(pre, post, InAcct(e))
      got  == Delta(pre, post, OutAcct(e))
  IN (u.present /\ Len(e.swaps) = 1 /\ e.swaps[1].done) =>
     /\ Sub("sdk_succeeds_where_program_does", u.ok)
     \* exact-in: the quote reports the SMALLEST amount whose fee-reduced value is what the pool takes (several
     \* amounts can have the same fee-reduced value); submitting that amount instead gives the same swap
     /\ Sub("pays_what_was_quoted",
            IF e.args.exactIn
            THEN u["in"] \preceq paid /\ TfExcluded(TfCfg(pre, (IF e.args.aToB THEN pre.pool[APool(e)].mintA ELSE pre.pool[APool(e)].mintB), e.epoch), u["in"])
                                            \doteq Delta(pre, post, InVault(e))
            ELSE u["in"] \doteq paid)
     /\ Sub("receives_what_was_quoted", u.out \doteq got)
     /\ Sub("same_total_fee", u.fee \doteq SumFee(e.swaps[1]))
     /\ Sub("bound_on_safe_side", IF e.args.exactIn THEN u.bound \preceq u.out ELSE u["in"] \preceq u.bound)

(* Situation coverage.  A predicate of the trace specification says nothing about an execution in which
   its antecedent never holds.  The catalogue below names the situations the predicates are about (where a
   swap stops, what a liquidity change does to its bounding ticks, which reference rule an adaptive-fee
   swap applies, ...).  While validating a trace TLC tallies, per event, which of them occurred (register 9);
   the runner sums the tallies over all traces of a check, reports them in the evidence, and treats a check
   whose plan lists a situation that never occurred as vacuous (tool error, never a pass).           *)
Sit(name, c) == IF c THEN {name} ELSE {}
OtherPos(s, p, k) == {y \in PosOf(s, p) : y # k}
TicksOnPrice(s, p) == {t \in InitTicksOf(s, p) : P(s, t) \doteq s.pool[p].sqrtPrice}
ArrIdx(t, sp) == t \div (sp * 88)      \* floor division: index of the 88-slot array holding tick t

SwapSituations(pre, e, post) ==
  LET sw  == e.swaps[1]
      p   == APool(e)
      a   == e.args
      n   == Len(sw.steps)
      cr  == {i \in DOMAIN sw.steps : "crossed" \in DOMAIN sw.steps[i]}
      paid == 0 -- Delta(pre, post, InAcct(e))
      got  == Delta(pre, post, OutAcct(e))
      used == IF a.exactIn THEN paid ELSE got
      fgIn0 == IF a.aToB THEN pre.pool[p].fgA ELSE pre.pool[p].fgB
      fgIn1 == IF a.aToB THEN post.pool[p].fgA ELSE post.pool[p].fgB
      sp_  == pre.pool[p].spacing
      cIn  == TfCfg(pre, IF a.aToB THEN pre.pool[p].mintA ELSE pre.pool[p].mintB, e.epoch)
      cOut == TfCfg(pre, IF a.aToB THEN pre.pool[p].mintB ELSE pre.pool[p].mintA, e.epoch)
  IN UNION {
     Sit("swap.a_to_b", a.aToB), Sit("swap.b_to_a", ~a.aToB), Sit("swap.exact_in", a.exactIn), Sit("swap.exact_out", ~a.exactIn),
     Sit("swap.v1", e.name = "swap"), Sit("swap.v2", e.name = "swap_v2"),
     Sit("swap.steps>=2", n >= 2), Sit("swap.steps>=4", n >= 4),
     Sit("swap.crosses_a_tick", cr # {}), Sit("swap.crosses>=3_ticks", Cardinality(cr) >= 3),
     Sit("swap.crosses_a_tick.a_to_b", cr # {} /\ a.aToB), Sit("swap.crosses_a_tick.b_to_a", cr # {} /\ ~a.aToB),
     Sit("swap.crosses_ticks_of_two_arrays", \E i, j \in cr : ArrIdx(sw.steps[i].crossed.tick, sp_) # ArrIdx(sw.steps[j].crossed.tick, sp_)),
     Sit("swap.crossed_tick_has_zero_net", \E i \in cr : sw.steps[i].crossed.net \doteq 0),
     Sit("swap.step_with_zero_liquidity", \E i \in DOMAIN sw.steps : sw.steps[i].liq \doteq 0),
     Sit("swap.liquidity_drops_to_zero", post.pool[p].liq \doteq 0 /\ ~(pre.pool[p].liq \doteq 0)),
     Sit("swap.explicit_limit", ~(a.limit \doteq 0)),
     Sit("swap.uses_less_than_specified", used \prec a.amount),
     Sit("swap.price_unmoved", post.pool[p].sqrtPrice \doteq pre.pool[p].sqrtPrice),
     Sit("swap.starts_on_initialized_tick", TicksOnPrice(pre, p) # {}),
     Sit("swap.starts_on_initialized_tick_shifted", \E t \in TicksOnPrice(pre, p) : pre.pool[p].tick = t - 1),
     Sit("swap.starts_on_initialized_tick_unshifted", \E t \in TicksOnPrice(pre, p) : pre.pool[p].tick = t),
     Sit("swap.ends_on_initialized_tick", TicksOnPrice(post, p) # {}),
     Sit("swap.ends_on_initialized_tick.a_to_b", a.aToB /\ TicksOnPrice(post, p) # {}),
     Sit("swap.ends_on_initialized_tick.b_to_a", ~a.aToB /\ TicksOnPrice(post, p) # {}),
     Sit("swap.ends_at_protocol_price_bound", post.pool[p].sqrtPrice \doteq MinSqrtPrice \/ post.pool[p].sqrtPrice \doteq MaxSqrtPrice),
     Sit("swap.fee_growth_wraps_around", fgIn1 \prec fgIn0),
     Sit("swap.threshold_equals_realised", IF a.exactIn THEN a.threshold \doteq got ELSE a.threshold \doteq paid),
     Sit("swap.step_stops_short_of_target", \E i \in DOMAIN sw.steps : ~(sw.steps[i].p1 \doteq sw.steps[i].btarget)),
     Sit("swap.budget_exhausted_exactly_at_target", n >= 1 /\ sw.steps[n].p1 \doteq sw.steps[n].btarget /\ sw.steps[n].remaining1 \doteq 0),
     Sit("swap.step_takes_fee_only", \E i \in DOMAIN sw.steps : sw.steps[i]["in"] \doteq 0 /\ ~(sw.steps[i].fee \doteq 0)),
     Sit("swap.step_pays_nothing", \E i \in DOMAIN sw.steps : sw.steps[i].out \doteq 0 /\ ~(sw.steps[i]["in"] \doteq 0)),
     Sit("swap.protocol_rate_zero", pre.pool[p].protoRate = 0), Sit("swap.fee_rate_zero", pre.pool[p].feeRate = 0),
     Sit("swap.input_mint_has_transfer_fee", cIn.bps > 0), Sit("swap.output_mint_has_transfer_fee", cOut.bps > 0),
     Sit("swap.adaptive_fee_pool", p \in DOMAIN pre.oracle),
     Sit("swap.liquidity>=2^96", BPow2(96) \preceq pre.pool[p].liq),
     Sit("swap.spacing_1", sp_ = 1), Sit("swap.full_range_only_pool", sp_ >= 32768) }

AfSituations(pre, e, post) ==
  LET sw  == e.swaps[1]
      p   == APool(e)
      o   == pre.oracle[p]
      o2  == post.oracle[p]
      age == e.now -- o.refTs
      el  == e.now -- BMax(o.refTs, o.majorTs)
      st_ == pre.pool[p].feeRate
  IN UNION {
     Sit("af.reference_reset_after_an_hour", 3600 \prec age),
     Sit("af.hour_reset_with_elapsed_inside_decay_window", 3600 \prec age /\ ~(el \prec o.filter) /\ el \prec o.decay),
     Sit("af.hour_reset_with_elapsed_inside_filter_period", 3600 \prec age /\ el \prec o.filter),
     Sit("af.reference_kept_inside_filter_period", ~(3600 \prec age) /\ el \prec o.filter),
     Sit("af.reference_decayed", ~(3600 \prec age) /\ ~(el \prec o.filter) /\ el \prec o.decay),
     Sit("af.reference_decayed_nonzero", ~(3600 \prec age) /\ ~(el \prec o.filter) /\ el \prec o.decay /\ ~(o2.volRef \doteq 0)),
     Sit("af.reference_reset_beyond_decay", ~(3600 \prec age) /\ ~(el \prec o.decay)),
     Sit("af.elapsed_equals_filter_period", el \doteq o.filter), Sit("af.elapsed_equals_decay_period", el \doteq o.decay),
     Sit("af.accumulator_at_maximum", o2.volAcc \doteq o.maxAcc /\ ~(o.maxAcc \doteq 0)),
     Sit("af.rate_at_hard_limit", \E i \in DOMAIN sw.steps : sw.steps[i].rate \doteq HardLimit),
     Sit("af.rate_above_static", \E i \in DOMAIN sw.steps : st_ \prec sw.steps[i].rate),
     Sit("af.skipped_step", \E i \in DOMAIN sw.steps : sw.steps[i].skip),
     Sit("af.step_spans_several_groups", \E i \in DOMAIN sw.steps : sw.steps[i].moved /\ sw.steps[i].gmin < sw.steps[i].gmax),
     Sit("af.swap_spans_several_groups", sw.startGroup # sw.endGroup),
     Sit("af.negative_tick_group", sw.startGroup < 0 \/ sw.endGroup < 0),
     Sit("af.ends_on_group_boundary", sw.endOnBoundary),
     Sit("af.major_swap", ~(o2.majorTs \doteq o.majorTs)),
     Sit("af.price_moved_exactly_by_the_major_swap_threshold",
         LET lo_ == BMin(pre.pool[APool(e)].sqrtPrice, post.pool[APool(e)].sqrtPrice) hi_ == BMax(pre.pool[APool(e)].sqrtPrice, post.pool[APool(e)].sqrtPrice) IN
         BDiv(lo_ \otimes sw.majorFactor, BPow2(64)) \doteq hi_),
     Sit("af.control_factor_zero", o.factor = 0),
     Sit("af.group_size_below_spacing", o.groupSize < pre.pool[p].spacing) }

LiqNames == {"increase_liquidity", "increase_liquidity_v2", "decrease_liquidity", "decrease_liquidity_v2",
             "increase_liquidity_by_token_amounts_v2", "reposition_liquidity_v2"}
LiqSituations(pre, e, post) ==
  LET k    == APos(e)
      x    == pre.pos[k]
      y    == post.pos[k]
      p    == x.pool
      pool == pre.pool[p]
      oth  == OtherPos(pre, p, k)
      tLo0 == TickOf(pre, p, y.lo)   tLo1 == TickOf(post, p, y.lo)
      tUp0 == TickOf(pre, p, y.up)   tUp1 == TickOf(post, p, y.up)
      oLo0 == TickOf(pre, p, x.lo)   oLo1 == TickOf(post, p, x.lo)
      oUp0 == TickOf(pre, p, x.up)   oUp1 == TickOf(post, p, x.up)
      up_  == x.liq \prec y.liq
      dn_  == y.liq \prec x.liq
  IN UNION {
     Sit("liq.price_below_range", pool.tick < y.lo), Sit("liq.price_in_range", y.lo <= pool.tick /\ pool.tick < y.up), Sit("liq.price_above_range", y.up <= pool.tick),
     Sit("liq.by_token_amounts.price_exactly_on_lower_bound", e.name = "increase_liquidity_by_token_amounts_v2" /\ pool.sqrtPrice \doteq P(post, y.lo)),
     Sit("liq.by_token_amounts.price_exactly_on_upper_bound", e.name = "increase_liquidity_by_token_amounts_v2" /\ pool.sqrtPrice \doteq P(post, y.up)),
     Sit("liq.price_exactly_on_lower_bound", pool.sqrtPrice \doteq P(post, y.lo)),
     Sit("liq.price_exactly_on_lower_bound_shifted", pool.sqrtPrice \doteq P(post, y.lo) /\ pool.tick = y.lo - 1),
     Sit("liq.price_exactly_on_upper_bound", pool.sqrtPrice \doteq P(post, y.up)),
     Sit("liq.price_exactly_on_upper_bound_shifted", pool.sqrtPrice \doteq P(post, y.up) /\ pool.tick = y.up - 1),
     Sit("liq.initializes_a_tick", (~tLo0.init /\ tLo1.init) \/ (~tUp0.init /\ tUp1.init)),
     Sit("liq.initializes_a_tick_at_or_below_price", (~tLo0.init /\ tLo1.init /\ y.lo <= pool.tick) \/ (~tUp0.init /\ tUp1.init /\ y.up <= pool.tick)),
     Sit("liq.deinitializes_a_tick", (oLo0.init /\ ~oLo1.init) \/ (oUp0.init /\ ~oUp1.init)),
     Sit("liq.bound_shared_with_other_position", \E j \in oth : {pre.pos[j].lo, pre.pos[j].up} \cap {y.lo, y.up} # {}),
     Sit("liq.lower_is_others_upper", \E j \in oth : pre.pos[j].up = y.lo), Sit("liq.upper_is_others_lower", \E j \in oth : pre.pos[j].lo = y.up),
     Sit("liq.same_range_as_other_position", \E j \in oth : pre.pos[j].lo = y.lo /\ pre.pos[j].up = y.up /\ ~(pre.pos[j].liq \doteq 0)),
     Sit("liq.tick_net_becomes_zero_but_stays_initialized", (tLo1.init /\ tLo1.net \doteq 0) \/ (tUp1.init /\ tUp1.net \doteq 0)),
     Sit("liq.decrease_to_zero", dn_ /\ y.liq \doteq 0), Sit("liq.partial_decrease", dn_ /\ ~(y.liq \doteq 0)),
     Sit("liq.first_deposit", up_ /\ x.liq \doteq 0), Sit("liq.top_up", up_ /\ ~(x.liq \doteq 0)),
     Sit("liq.bound_at_min_or_max_tick", y.lo <= -443636 + pool.spacing \/ y.up >= 443636 - pool.spacing),
     Sit("liq.position_liquidity>=2^96", BPow2(96) \preceq y.liq),
     Sit("liq.credits_fees", ~(y.owedA \doteq x.owedA) \/ ~(y.owedB \doteq x.owedB)),
     Sit("liq.credits_rewards", \E i \in 1..3 : ~(y.rw[i].owed \doteq x.rw[i].owed)),
     Sit("liq.checkpoint_behind_wrapped_accumulator", FeeInside(pre, p, x, TRUE) \prec x.cpA \/ FeeInside(pre, p, x, FALSE) \prec x.cpB),
     Sit("liq.fee_credit_dropped_by_overflow", ~(x.liq \doteq 0) /\ (WrapMod \preceq (x.liq \otimes WSub(FeeInside(pre, p, x, TRUE), x.cpA)) \/ WrapMod \preceq (x.liq \otimes WSub(FeeInside(pre, p, x, FALSE), x.cpB)))),
     Sit("liq.dynamic_tick_array", tLo1.init /\ tLo1.dyn), Sit("liq.fixed_tick_array", tLo1.init /\ ~tLo1.dyn),
     Sit("liq.bounds_in_one_array", ArrIdx(y.lo, pool.spacing) = ArrIdx(y.up, pool.spacing)),
     Sit("liq.mixed_array_encodings", tLo1.init /\ tUp1.init /\ tLo1.dyn # tUp1.dyn),
     Sit("liq.transfer_fee_mint", ~NoTransferFee(pre, p)),
     Sit("liq.range_changed", ~(x.lo = y.lo /\ x.up = y.up)),
     Sit("liq.new_range_overlaps_old", ~(x.lo = y.lo /\ x.up = y.up) /\ y.lo < x.up /\ x.lo < y.up),
     Sit("liq.new_range_shares_bound_with_old", ~(x.lo = y.lo /\ x.up = y.up) /\ {x.lo, x.up} \cap {y.lo, y.up} # {}) }

RewardSituations(pre, e, post) ==
  LET p == PoolOfEvent(pre, e) IN
  IF p \notin DOMAIN pre.pool \/ p \notin DOMAIN post.pool \/ e.name \notin UpdatingNames THEN {}
  ELSE LET pl == pre.pool[p] dt == e.now -- pl.rewardTs
           ninit == Cardinality({i \in 1..3 : pl.rewards[i].init}) IN
       UNION {
         Sit("reward.interval_accrues", \E i \in 1..3 : Accrues(pl, i, e.now) /\ ~(pl.rewards[i].emissions \doteq 0)),
         Sit("reward.interval_rounds_to_zero_growth", \E i \in 1..3 : Accrues(pl, i, e.now) /\ ~(pl.rewards[i].emissions \doteq 0) /\ post.pool[p].rewards[i].growth \doteq pl.rewards[i].growth),
         Sit("reward.zero_elapsed_time", ninit > 0 /\ dt \doteq 0),
         Sit("reward.interval_with_zero_liquidity", ninit > 0 /\ ~(dt \doteq 0) /\ pl.liq \doteq 0 /\ \E i \in 1..3 : pl.rewards[i].init /\ ~(pl.rewards[i].emissions \doteq 0)),
         Sit("reward.interval_dropped_by_overflow", \E i \in 1..3 : pl.rewards[i].init /\ ~(pl.liq \doteq 0) /\ WrapMod \preceq (dt \otimes pl.rewards[i].emissions)),
         Sit("reward.growth_wraps_around", \E i \in 1..3 : post.pool[p].rewards[i].growth \prec pl.rewards[i].growth),
         Sit("reward.emissions_set_with_a_day_exactly_funded", e.name \in {"set_reward_emissions", "set_reward_emissions_v2"} /\ ~(e.args.emissions \doteq 0)
                 /\ BDiv(86400 \otimes e.args.emissions, BPow2(64)) \doteq Bal(pre, e.slots.reward_vault.id)),
         Sit("reward.two_or_more_rewards", ninit >= 2), Sit("reward.three_rewards", ninit = 3),
         Sit("reward.emissions_changed_after_elapsed_time", e.name \in {"set_reward_emissions", "set_reward_emissions_v2"} /\ ~(dt \doteq 0) /\ ~(pl.liq \doteq 0)),
         Sit("reward.swap_crosses_tick_with_rewards", IsSwapName(e.name) /\ ninit > 0 /\ Len(e.swaps) = 1 /\ \E i \in DOMAIN e.swaps[1].steps : "crossed" \in DOMAIN e.swaps[1].steps[i]) }

OtherSituations(pre, e, post) ==
  UNION {
    Sit("collect_reward.vault_short", e.name \in {"collect_reward", "collect_reward_v2"} /\ APos(e) \in DOMAIN pre.pos /\
          Bal(pre, e.slots.reward_vault.id) \prec pre.pos[APos(e)].rw[e.args.index + 1].owed),
    Sit("collect_reward.nonzero", e.name \in {"collect_reward", "collect_reward_v2"} /\ APos(e) \in DOMAIN pre.pos /\ ~(pre.pos[APos(e)].rw[e.args.index + 1].owed \doteq 0)),
    Sit("collect_reward.index>=1", e.name \in {"collect_reward", "collect_reward_v2"} /\ e.args.index >= 1),
    Sit("collect_fees.nonzero", e.name \in {"collect_fees", "collect_fees_v2"} /\ APos(e) \in DOMAIN pre.pos /\ (~(pre.pos[APos(e)].owedA \doteq 0) \/ ~(pre.pos[APos(e)].owedB \doteq 0))),
    Sit("collect_fees.position_without_liquidity", e.name \in {"collect_fees", "collect_fees_v2"} /\ APos(e) \in DOMAIN pre.pos /\ pre.pos[APos(e)].liq \doteq 0),
    Sit("collect_protocol_fees.nonzero", e.name \in {"collect_protocol_fees", "collect_protocol_fees_v2"} /\ (~(pre.pool[APool(e)].protoA \doteq 0) \/ ~(pre.pool[APool(e)].protoB \doteq 0))),
    Sit("update_fees.position_out_of_range", e.name = "update_fees_and_rewards" /\ APos(e) \in DOMAIN pre.pos /\ ~InRange(pre.pool[pre.pos[APos(e)].pool], pre.pos[APos(e)])),
    Sit("update_fees.credits_fees", e.name = "update_fees_and_rewards" /\ APos(e) \in DOMAIN pre.pos /\ APos(e) \in DOMAIN post.pos /\
          (~(post.pos[APos(e)].owedA \doteq pre.pos[APos(e)].owedA) \/ ~(post.pos[APos(e)].owedB \doteq pre.pos[APos(e)].owedB))),
    Sit("twohop.same_direction", e.name \in {"two_hop_swap", "two_hop_swap_v2"} /\ e.args.aToB1 = e.args.aToB2),
    Sit("twohop.mixed_direction", e.name \in {"two_hop_swap", "two_hop_swap_v2"} /\ e.args.aToB1 # e.args.aToB2),
    Sit("twohop.exact_out", e.name \in {"two_hop_swap", "two_hop_swap_v2"} /\ ~e.args.exactIn),
    Sit("twohop.explicit_limit", e.name \in {"two_hop_swap", "two_hop_swap_v2"} /\ (~(e.args.limit1 \doteq 0) \/ ~(e.args.limit2 \doteq 0))),
    Sit("twohop.leg_crosses_a_tick", e.name \in {"two_hop_swap", "two_hop_swap_v2"} /\ \E k \in DOMAIN e.swaps : \E i \in DOMAIN e.swaps[k].steps : "crossed" \in DOMAIN e.swaps[k].steps[i]),
    Sit("sdk.quoted_over_six_tick_arrays", IsSwapName(e.name) /\ e.sdk.present /\ "slots" \in DOMAIN e.sdk /\ e.sdk.slots = 6),
    Sit("twohop.repackaged", e.name = "two_hop_swap_v2" /\ e.pack.present),
    Sit("twohop.repackaged.second_leg_leaves_its_first_array", e.name = "two_hop_swap_v2" /\ e.pack.present /\
          LET q == e.slots.whirlpool_two.id IN ArrIdx(pre.pool[q].tick, pre.pool[q].spacing) # ArrIdx(post.pool[q].tick, post.pool[q].spacing)),
    Sit("twohop.repackaged.first_leg_leaves_its_first_array", e.name = "two_hop_swap_v2" /\ e.pack.present /\
          LET q == e.slots.whirlpool_one.id IN ArrIdx(pre.pool[q].tick, pre.pool[q].spacing) # ArrIdx(post.pool[q].tick, post.pool[q].spacing)),
    Sit("probe.succeeded", e.probe) }

(* instruction x feature: which instructions succeeded on which kind of pool / position (transfer-fee mints, adaptive
   fee, Token-2022, active rewards, bundled / locked / Token-2022 position tokens, a delegate signing ...).  An empty cell
   that is feasible is a region no predicate has been evaluated in.                                       *)
PoolsOfEvent(pre, e) ==
  (IF Has(e.args, "pool") /\ APool(e) \in DOMAIN pre.pool THEN {APool(e)} ELSE {})
  \cup (IF Has(e.args, "pos") /\ APos(e) \in DOMAIN pre.pos /\ pre.pos[APos(e)].pool \in DOMAIN pre.pool THEN {pre.pos[APos(e)].pool} ELSE {})
  \cup (IF HasSlot(e, "whirlpool_one") /\ Id(e, "whirlpool_one") \in DOMAIN pre.pool THEN {Id(e, "whirlpool_one")} ELSE {})
  \cup (IF HasSlot(e, "whirlpool_two") /\ Id(e, "whirlpool_two") \in DOMAIN pre.pool THEN {Id(e, "whirlpool_two")} ELSE {})
MintHasFee(pre, m, epoch) == m \in DOMAIN pre.mint /\ TfCfg(pre, m, epoch).bps > 0
PoolFeatures(pre, e, q) ==
  LET pl == pre.pool[q] IN
  UNION { Sit("fee_on_a", MintHasFee(pre, pl.mintA, e.epoch)), Sit("fee_on_b", MintHasFee(pre, pl.mintB, e.epoch)),
          Sit("token2022", pl.mintA \in DOMAIN pre.mint /\ pre.mint[pl.mintA].prog # "spl"),
          Sit("adaptive", q \in DOMAIN pre.oracle),
          Sit("rewards_emitting", \E i \in 1..3 : pl.rewards[i].init /\ ~(pl.rewards[i].emissions \doteq 0)),
          Sit("no_liquidity", pl.liq \doteq 0) }
PosFeatures(pre, e) ==
  IF ~(Has(e.args, "pos") /\ APos(e) \in DOMAIN pre.pos) THEN {}
  ELSE LET x == pre.pos[APos(e)] IN
       UNION { Sit("position_token2022", x.mint \in DOMAIN pre.mint /\ pre.mint[x.mint].prog # "spl"),
               Sit("bundled_position", \E b \in DOMAIN pre.bundle : pre.bundle[b].mint = x.mint),
               Sit("locked_position", APos(e) \in DOMAIN pre.lock),
               Sit("delegate_signs", HasSlot(e, "position_token_account") /\ HasSlot(e, "position_authority") /\ IsTok(pre, Id(e, "position_token_account"))
                                      /\ pre.tok[Id(e, "position_token_account")].owner # Id(e, "position_authority")),
               Sit("empty_position", x.liq \doteq 0) }
IxFeatures(pre, e) ==
  {"x." \o e.name \o "." \o f : f \in (UNION {PoolFeatures(pre, e, q) : q \in PoolsOfEvent(pre, e)}) \cup PosFeatures(pre, e)}

Situations(pre, e, post) ==
  UNION {
    {"ix." \o e.name}, IxFeatures(pre, e),
    IF IsSwapName(e.name) /\ Len(e.swaps) = 1 /\ e.swaps[1].done THEN SwapSituations(pre, e, post) ELSE {},
    IF IsSwapName(e.name) /\ Len(e.swaps) = 1 /\ e.swaps[1].done /\ APool(e) \in DOMAIN pre.oracle /\ APool(e) \in DOMAIN post.oracle THEN AfSituations(pre, e, post) ELSE {},
    IF e.name \in LiqNames /\ Has(e.args, "pos") /\ APos(e) \in DOMAIN pre.pos /\ APos(e) \in DOMAIN post.pos THEN LiqSituations(pre, e, post) ELSE {},
    RewardSituations(pre, e, post),
    OtherSituations(pre, e, post) }
TradePending(pre, e, q) == q \in DOMAIN pre.oracle /\ e.now \prec pre.oracle[q].tradeEnableTs
\* a price limit that is not on the trade side of the pool price, yet inside the price interval of the current tick
WrongSideNear(pre, e) ==
  LET p == APool(e) sp == pre.pool[p].sqrtPrice lim == e.args.limit t == pre.pool[p].tick IN
  /\ ~(lim \doteq 0) /\ Has(pre.prices, ToString(t)) /\ Has(pre.prices, ToString(t + 1))
  /\ IF e.args.aToB THEN sp \preceq lim /\ lim \prec P(pre, t + 1) ELSE P(pre, t) \prec lim /\ lim \preceq sp
FailSituations(pre, e) ==
  {"fail." \o e.name, "err." \o ToString(e.err)} \cup Sit("fail.probe", e.probe) \cup Sit("fail.panic", e.panic)
  \cup Sit("refused.swap_limit_on_wrong_side_inside_current_tick", IsSwapName(e.name) /\ Has(e.args, "pool") /\ APool(e) \in DOMAIN pre.pool /\ WrongSideNear(pre, e))
  \cup Sit("refused.emissions_one_token_short_of_a_day", e.name \in {"set_reward_emissions", "set_reward_emissions_v2"} /\ HasSlot(e, "reward_vault") /\ e.slots.reward_vault.id \in DOMAIN pre.tok
            /\ BDiv(86400 \otimes e.args.emissions, BPow2(64)) \doteq (Bal(pre, e.slots.reward_vault.id) ++ 1))
  \cup Sit("refused.swap_before_trade_enabled", IsSwapName(e.name) /\ Has(e.args, "pool") /\ TradePending(pre, e, APool(e)))
  \cup Sit("refused.twohop_first_leg_before_trade_enabled", e.name \in {"two_hop_swap", "two_hop_swap_v2"} /\ TradePending(pre, e, e.slots.whirlpool_one.id))
  \cup Sit("refused.twohop_second_leg_before_trade_enabled", e.name \in {"two_hop_swap", "two_hop_swap_v2"} /\ TradePending(pre, e, e.slots.whirlpool_two.id))
  \cup Sit("refused.twohop_v1_second_leg_before_trade_enabled", e.name = "two_hop_swap" /\ TradePending(pre, e, e.slots.whirlpool_two.id))

Tally(S) ==
  LET f == TLCGet(9) IN
  TLCSet(9, [n \in DOMAIN f \cup S |-> (IF n \in DOMAIN f THEN f[n] ELSE 0) + (IF n \in S THEN 1 ELSE 0)])
Cover(S) == IF "COV" \in Active THEN Tally(S) ELSE TRUE

(* Creation instructions (beyond pool creation): what exactly comes into existence.                     *)
\* initialize_reward(_v2): the lowest uninitialized reward slot of the pool is bound to the given mint and a fresh,
\* empty vault owned by the pool; it starts with no emissions and no growth; nothing else of the pool changes
InitRewardEffect(pre, e, post) ==
  LET p == Id(e, "whirlpool") i == e.args.index + 1 v == Id(e, "reward_vault")
      r0 == pre.pool[p].rewards r1 == post.pool[p].rewards IN
  /\ Sub("index_is_lowest_free_slot", i \in 1..3 /\ ~r0[i].init /\ \A j \in 1..3 : (j < i => r0[j].init))
  /\ Sub("slot_bound", r1[i].init /\ r1[i].mint = Id(e, "reward_mint") /\ r1[i].vault = v)
  /\ Sub("starts_idle", r1[i].emissions \doteq 0 /\ r1[i].growth \doteq 0)
  /\ Sub("other_rewards_untouched", \A j \in 1..3 : j # i => r1[j] = r0[j])
  /\ Sub("pool_otherwise_untouched", post.pool[p] = [pre.pool[p] EXCEPT !.rewards = r1])
  /\ Sub("fresh_empty_vault", v \notin DOMAIN pre.tok /\ v \in DOMAIN post.tok /\ post.tok[v].mint = Id(e, "reward_mint") /\ post.tok[v].owner = p
                              /\ post.tok[v].amount \doteq 0 /\ post.tok[v].delegate = "none" /\ post.tok[v].close = "none")
  /\ Sub("nothing_else", ChangedKeys(e.diff, "pool") = {p} /\ ChangedKeys(e.diff, "tok") = {v} /\ ChangedKeys(e.diff, "pos") = {} /\ ChangedKeys(e.diff, "tick") = {})

\* initialize_tick_array / initialize_dynamic_tick_array: an empty array of the named pool at a start index that is a
\* multiple of 88 tick spacings inside the tick range; a dynamic array starts at its minimum length
InitTickArrayEffect(pre, e, post) ==
  LET p == Id(e, "whirlpool") a == Id(e, "tick_array") sp_ == pre.pool[p].spacing span == sp_ * 88 IN
  /\ Sub("new_array_of_the_pool", a \notin DOMAIN pre.ta /\ a \in DOMAIN post.ta /\ post.ta[a].pool = p /\ post.ta[a].start = e.args.start)
  /\ Sub("start_index_valid", e.args.start % span = 0 /\ e.args.start + span > -443636 /\ e.args.start <= 443636)
  /\ Sub("empty", post.ta[a].ninit = 0 /\ ChangedKeys(e.diff, "tick") = {})
  /\ Sub("encoding", post.ta[a].dyn = (e.name = "initialize_dynamic_tick_array") /\ post.ta[a].wf /\ post.ta[a].len = (IF post.ta[a].dyn THEN 148 ELSE 9988))
  /\ Sub("nothing_else", ChangedKeys(e.diff, "ta") = {a} /\ ChangedKeys(e.diff, "pool") = {} /\ ChangedKeys(e.diff, "pos") = {})

\* fee tiers: created under the config whose fee authority signed, with the given parameters
InitTierEffect(pre, e, post) ==
  IF e.name = "initialize_fee_tier"
  THEN LET t == Id(e, "fee_tier") IN
       /\ Sub("new_tier", t \notin DOMAIN pre.tier /\ t \in DOMAIN post.tier)
       /\ Sub("parameters", post.tier[t].cfg = Id(e, "config") /\ post.tier[t].spacing = e.args.spacing /\ post.tier[t].defaultFeeRate = e.args.rate)
       /\ Sub("nothing_else", ChangedKeys(e.diff, "tier") = {t} /\ ChangedKeys(e.diff, "cfg") = {} /\ ChangedKeys(e.diff, "pool") = {})
  ELSE LET t == Id(e, "adaptive_fee_tier") c == e.args.constants r == post.atier[t] IN
       /\ Sub("new_tier", t \notin DOMAIN pre.atier /\ t \in DOMAIN post.atier)
       /\ Sub("parameters", r.cfg = Id(e, "whirlpools_config") /\ r.spacing = e.args.spacing /\ r.baseFeeRate = e.args.baseRate /\ r.index = e.args.index
                            /\ r.delegatedFeeAuth = e.args.delegated /\ r.initPoolAuth = e.args.initPoolAuth)
       /\ Sub("constants", r.filter = c.filter /\ r.decay = c.decay /\ r.reduction = c.reduction /\ r.factor = c.factor /\ r.maxAcc \doteq c.maxAcc
                           /\ r.groupSize = c.groupSize /\ r.majorTicks = c.majorTicks)
       /\ Sub("nothing_else", ChangedKeys(e.diff, "atier") = {t} /\ ChangedKeys(e.diff, "cfg") = {} /\ ChangedKeys(e.diff, "pool") = {})

\* token badges: created for (config, mint) by the badge authority; deleted again without touching anything else
BadgeEffect(pre, e, post) ==
  LET b == Id(e, "token_badge") IN
  IF e.name = "initialize_token_badge"
  THEN /\ Sub("new_badge", b \notin DOMAIN pre.badge /\ b \in DOMAIN post.badge /\ post.badge[b].cfg = Id(e, "whirlpools_config") /\ post.badge[b].mint = Id(e, "token_mint"))
       /\ Sub("nothing_else", ChangedKeys(e.diff, "badge") = {b} /\ ChangedKeys(e.diff, "ext") = {} /\ ChangedKeys(e.diff, "cfg") = {})
  ELSE /\ Sub("badge_removed", b \in DOMAIN pre.badge /\ b \notin DOMAIN post.badge)
       /\ Sub("nothing_else", ChangedKeys(e.diff, "badge") = {b} /\ ChangedKeys(e.diff, "ext") = {} /\ ChangedKeys(e.diff, "cfg") = {})

(* C13 on recorded histories: after every instruction every dynamic tick array of the world is well formed (bitmap =
   initialized slots, 113 / 1 bytes per slot in slot order) and its account length is 148 + 112 x initialized ticks;
   a fixed array keeps its fixed length.                                                              *)
C13State(s) ==
  \A a \in DOMAIN s.ta :
    IF s.ta[a].dyn THEN Sub("dynamic_array_well_formed", s.ta[a].wf) /\ Sub("dynamic_array_length", s.ta[a].len = 148 + 112 * s.ta[a].ninit)
    ELSE Sub("fixed_array_length", s.ta[a].len = 9988)

(* C20: the SDK's liquidity quotes (increase_liquidity_quote / decrease_liquidity_quote of the same liquidity amount at the
   pre-state price, transfer fees of both mints applied): the estimated token amounts are what the owner really pays /
   receives, the quote never fails where the program succeeds, the slippage-adjusted maxima / minima are on the safe side. *)
C20Liquidity(pre, e, post) ==
  LET u   == e.sdkLiq
      inc == e.name \in {"increase_liquidity", "increase_liquidity_v2"}
      dA  == IF inc THEN 0 -- Delta(pre, post, e.slots.token_owner_account_a.id) ELSE Delta(pre, post, e.slots.token_owner_account_a.id)
      dB  == IF inc THEN 0 -- Delta(pre, post, e.slots.token_owner_account_b.id) ELSE Delta(pre, post, e.slots.token_owner_account_b.id)
  IN ("sdkLiq" \in DOMAIN e /\ u.present) =>
     /\ Sub("sdk_succeeds_where_program_does", u.ok)
     /\ Sub("same_token_amounts", u.estA \doteq dA /\ u.estB \doteq dB)
     /\ Sub("bound_on_safe_side", IF inc THEN u.estA \preceq u.boundA /\ u.estB \preceq u.boundB ELSE u.boundA \preceq u.estA /\ u.boundB \preceq u.estB)

(* ---------------------------------------------------------------------------------------------------
   The WIDER specification: behaviour of the program that none of the listed properties speaks about, specified and
   bound to the code all the same.  A deviation from one of these predicates is NOT a violation of the property a check
   decides - it is tallied (register 11: evaluations, deviations, first deviating line), reported by the runner in the
   evidence and on a NOTE line, and never changes a verdict.

   (W1) The non-transferable-position requirement.  A token badge carries one attribute, "positions of pools over this
        mint must be non-transferable".  A pool created by initialize_pool_v2 / initialize_pool_with_adaptive_fee copies
        the attribute of the badges of its two mints (of ITS config) into bit 0 of its control flags, once and for all -
        changing the attribute later does not change the pool; a v1 pool never has it.  A pool whose third reward slot
        still carries an authority (old account layout, not yet migrated) has no control flags at all.  While the
        requirement holds, positions can only be opened with open_position_with_token_extensions, whose position mint
        then carries the NonTransferable extension (type 9) - and carries it in no other case; such a position can be
        locked but, being non-transferable, not handed over.
   (W2) PoolInitialized / PositionOpened events carry exactly what was created.
   (W3) Position bundles: created empty, with exactly one bundle token, held by the named owner, without mint authority.
   (W7) Closing a position burns its token and closes the token account (and the Token-2022 position mint; an SPL mint stays, with
        supply 0); deleting a bundle likewise; a lock records the time and the (only) lock type in its lock config.
   (W8) An instruction that is refused returns an error code; the program never aborts (panics) - except the migration, by design.
   (W6) SDK: collect_fees_quote / collect_rewards_quote on the state before an update_fees_and_rewards equal what the program then
        records as owed to the position (fees; rewards at the instruction's clock).
   (W4) migrate_repurpose_reward_authority_space: possible exactly once per old-layout pool; it clears the two repurposed
        fields (control flags become 0, the requirement does not spring into existence) and changes nothing else.       *)
Wider(name, c) ==
  LET f   == TLCGet(11)
      ok  == c
      old == IF name \in DOMAIN f THEN f[name] ELSE [evaluated |-> 0, deviations |-> 0, first |-> 0]
      new == [evaluated |-> old.evaluated + 1, deviations |-> old.deviations + (IF ok THEN 0 ELSE 1),
              first |-> IF ok \/ old.first # 0 THEN old.first ELSE l]
  IN TLCSet(11, [n \in DOMAIN f \cup {name} |-> IF n = name THEN new ELSE f[n]])

NTAttr(s, c, m) == \E b \in DOMAIN s.badge : s.badge[b].cfg = c /\ s.badge[b].mint = m /\ s.badge[b].nonTransferablePos
NTRequired(s, p) == s.pool[p].ext2zero /\ s.pool[p].flags % 2 = 1
EvOf(e, name) == {i \in DOMAIN e.events : e.events[i].ev = name}
MintExts(s, m) == {s.mint[m].exts[i] : i \in DOMAIN s.mint[m].exts}

(* (W5) Rent escrow of dynamic tick arrays.  A dynamic array grows by 112 bytes per initialized tick; the rent of those bytes
        is not paid by whoever happens to initialize the tick: every position is opened with the rent of TWO ticks on top of its own
        (open_* / reset_position_range collect it from the funder), hands one tick's rent to each DYNAMIC array holding one of its
        bounds when it first receives liquidity, and takes it back when its liquidity returns to zero - whether or not the tick was
        (de)initialized by that change.  Hence, in every state:
          lamports(position) = rent(216 bytes) + tick rent x (2 - number of its bounds lying in dynamic arrays, if it has liquidity)
          lamports(dynamic array) = rent(148 bytes) + tick rent x number of (position with liquidity, bound) pairs it holds
        and the array is rent exempt at its current length, since a tick is initialized only while some such pair refers to it.
        (Equalities of worlds in which accounts are created and funded by the program's instructions only: nobody donates lamports to a
        position or an array, no account is pre-funded, receivers of closed accounts are wallets, the Rent sysvar is constant, and no position
        predates the collection of tick rent - all true of the harness; with donations ">=" would remain.)                      *)
TickRent == 779520                       \* 112 bytes x 3480 lamports per byte-year x 2 years
RentMin(len) == (128 + len) * 6960
DynAt(s, p, t) == IF \E a \in DOMAIN s.ta : s.ta[a].pool = p /\ s.ta[a].dyn /\ Holds(s, a, p, t) THEN 1 ELSE 0
EscrowIn(s, a) ==
  LET p == s.ta[a].pool
      K == {k \in DOMAIN s.pos : s.pos[k].pool = p /\ ~(s.pos[k].liq \doteq 0)}
  IN Cardinality({k \in K : Holds(s, a, p, s.pos[k].lo)}) + Cardinality({k \in K : Holds(s, a, p, s.pos[k].up)})
W5State(s) ==
  /\ Wider("W5.position_holds_rent_of_its_idle_ticks",
           \A k \in DOMAIN s.pos : LET x == s.pos[k] IN
              (x.pool \in DOMAIN s.pool) =>
                 x.lamports \doteq (RentMin(216) + TickRent * (2 - (IF x.liq \doteq 0 THEN 0 ELSE DynAt(s, x.pool, x.lo) + DynAt(s, x.pool, x.up)))))
  /\ Wider("W5.dynamic_array_holds_rent_of_ticks_in_use",
           \A a \in DOMAIN s.ta : (s.ta[a].dyn /\ s.ta[a].pool \in DOMAIN s.pool) => s.ta[a].lamports \doteq (RentMin(148) + TickRent * EscrowIn(s, a)))
  /\ Wider("W5.tick_arrays_rent_exempt", \A a \in DOMAIN s.ta : RentMin(s.ta[a].len) \preceq s.ta[a].lamports)

WiderOK(pre, e, post) ==
  /\ IF e.name \in {"initialize_pool", "initialize_pool_v2", "initialize_pool_with_adaptive_fee"}
     THEN LET q == Id(e, "whirlpool") c == Id(e, "whirlpools_config") r == post.pool[q]
              want == e.name # "initialize_pool" /\ (NTAttr(pre, c, Id(e, "token_mint_a")) \/ NTAttr(pre, c, Id(e, "token_mint_b")))
          IN /\ Wider("W1.pool_inherits_requirement_from_badges", r.ext2zero /\ r.ext1rest /\ r.flags = (IF want THEN 1 ELSE 0))
             /\ Wider("W2.pool_initialized_event",
                      LET E == EvOf(e, "PoolInitialized") IN
                      /\ Cardinality(E) = 1
                      /\ LET v == e.events[CHOOSE i \in E : TRUE] IN
                         /\ v.pool = q /\ v.cfg = c /\ v.mintA = r.mintA /\ v.mintB = r.mintB /\ v.spacing = r.spacing
                         /\ v.sqrtPrice \doteq r.sqrtPrice
                         /\ v.progA = (IF pre.mint[r.mintA].prog = "spl" THEN "prog:token" ELSE "prog:token2022")
                         /\ v.progB = (IF pre.mint[r.mintB].prog = "spl" THEN "prog:token" ELSE "prog:token2022")
                         /\ v.decimalsA = pre.mint[r.mintA].decimals /\ v.decimalsB = pre.mint[r.mintB].decimals)
     ELSE TRUE
  /\ IF e.name \in OpenNames
     THEN LET p == Id(e, "whirlpool") k == APos(e) IN     \* (the pool actually passed: the account-substitution probes pass another one)
          /\ Wider("W1.plain_open_only_without_requirement", e.name = "open_position_with_token_extensions" \/ ~NTRequired(pre, p))
          /\ IF e.name = "open_position_with_token_extensions"
             THEN Wider("W1.position_mint_non_transferable_iff_required", (9 \in MintExts(post, post.pos[k].mint)) <=> NTRequired(pre, p))
             ELSE TRUE
          /\ Wider("W2.position_opened_event",
                   LET E == EvOf(e, "PositionOpened") IN
                   /\ Cardinality(E) = 1
                   /\ LET v == e.events[CHOOSE i \in E : TRUE] IN
                      v.pool = p /\ v.pos = k /\ v.lo = post.pos[k].lo /\ v.up = post.pos[k].up)
     ELSE TRUE
  /\ IF e.name = "transfer_locked_position"
     THEN Wider("W1.non_transferable_position_not_handed_over", 9 \notin MintExts(pre, pre.pos[Id(e, "position")].mint))
     ELSE TRUE
  /\ IF e.name = "set_token_badge_attribute"
     THEN Wider("W1.attribute_change_leaves_pools_alone", ChangedKeys(e.diff, "pool") = {})
     ELSE TRUE
  /\ IF e.name \in {"initialize_position_bundle", "initialize_position_bundle_with_metadata"}
     THEN LET b == Id(e, "position_bundle") m == Id(e, "position_bundle_mint") ta == Id(e, "position_bundle_token_account") IN
          Wider("W3.bundle_created",
                /\ b \notin DOMAIN pre.bundle /\ b \in DOMAIN post.bundle
                /\ post.bundle[b].mint = m /\ post.bundle[b].open = <<>> /\ post.bundle[b].existing = <<>>
                /\ m \in DOMAIN post.mint /\ post.mint[m].supply \doteq 1 /\ post.mint[m].auth = "none" /\ post.mint[m].decimals = 0
                /\ ta \in DOMAIN post.tok /\ post.tok[ta].mint = m /\ post.tok[ta].amount \doteq 1 /\ post.tok[ta].owner = Id(e, "position_bundle_owner")
                /\ ChangedKeys(e.diff, "bundle") = {b} /\ ChangedKeys(e.diff, "pos") = {} /\ ChangedKeys(e.diff, "pool") = {})
     ELSE TRUE
  /\ IF ChangedKeys(e.diff, "pos") # {} \/ ChangedKeys(e.diff, "ta") # {} THEN W5State(post) ELSE TRUE
  /\ IF e.name \in {"close_position", "close_position_with_token_extensions"}
     THEN LET m == Id(e, "position_mint") ta == Id(e, "position_token_account") IN
          Wider("W7.close_burns_the_token_and_closes_its_accounts",
                /\ ta \notin DOMAIN post.tok
                /\ IF e.name = "close_position" THEN m \in DOMAIN post.mint /\ post.mint[m].supply \doteq 0     \* an SPL mint cannot be closed
                   ELSE m \notin DOMAIN post.mint)
     ELSE TRUE
  /\ IF e.name = "delete_position_bundle"
     THEN LET m == Id(e, "position_bundle_mint") ta == Id(e, "position_bundle_token_account") IN
          Wider("W7.bundle_deletion_burns_the_token_and_closes_its_accounts",
                ta \notin DOMAIN post.tok /\ m \in DOMAIN post.mint /\ post.mint[m].supply \doteq 0 /\ Id(e, "position_bundle") \notin DOMAIN post.bundle)
     ELSE TRUE
  /\ IF e.name = "lock_position"
     THEN LET k == Id(e, "position") IN
          Wider("W7.lock_config_records_time_and_type", k \in DOMAIN post.lock /\ post.lock[k].ts \doteq e.now /\ post.lock[k].type = 0 /\ post.lock[k].key = Id(e, "lock_config"))
     ELSE TRUE
  /\ IF e.name = "update_fees_and_rewards" /\ "sdkOwed" \in DOMAIN e /\ e.sdkOwed.present
     THEN LET k   == Id(e, "position")
              x   == pre.pos[k]
              y   == post.pos[k]
              u   == e.sdkOwed
              pl  == pre.pool[x.pool]
              dt  == e.now -- pl.rewardTs
              \* regimes in which program and SDK knowingly part: the program drops a credit whose product does not fit 128 bits (the
              \* SDK multiplies in 256 bits) and skips a reward interval whose emissions x seconds do not fit (the SDK refuses)
              dropA == WrapMod \preceq (x.liq \otimes WSub(FeeInside(pre, x.pool, x, TRUE), x.cpA))
              dropB == WrapMod \preceq (x.liq \otimes WSub(FeeInside(pre, x.pool, x, FALSE), x.cpB))
              ovf   == \E i \in 1..3 : WrapMod \preceq (dt \otimes pl.rewards[i].emissions)
          IN /\ Wider("W6.sdk_fee_quote_equals_owed_after_update", (dropA \/ dropB) \/ (u.feeOk /\ u.feeA \doteq y.owedA /\ u.feeB \doteq y.owedB))
             /\ Wider("W6.sdk_reward_quote_equals_owed_after_update", (u.rwOk /\ ~ovf) => \A i \in 1..3 : u.rw[i] \doteq y.rw[i].owed)
             /\ Wider("W6.sdk_reward_quote_refuses_only_on_overflow", u.rwOk \/ ovf)
     ELSE TRUE
  /\ IF e.name = "migrate_repurpose_reward_authority_space"
     THEN LET q == Id(e, "whirlpool") IN
          /\ Wider("W4.migration_only_of_old_layout", ~pre.pool[q].ext2zero)
          /\ Wider("W4.migration_clears_the_two_fields_only",
                   /\ post.pool[q] = [pre.pool[q] EXCEPT !.ext2zero = TRUE, !.ext1rest = TRUE, !.flags = 0]
                   /\ ChangedKeys(e.diff, "pool") \subseteq {q}
                   /\ \A sec \in Sections \ {"pool"} : ChangedKeys(e.diff, sec) = {})
     ELSE TRUE

\* what the wider specification says about a REFUSED instruction
WiderFailed(pre, e) ==
  \* (W8) a refusal is an error code, never an abort of the program (the one instruction that panics by design is the migration)
  \* (and a reward index beyond the three slots: the account constraints of collect_reward(_v2) / set_reward_emissions(_v2) index the
  \* reward array before the handler can answer InvalidRewardIndex - the unmodified program aborts there)
  /\ Wider("W8.refusal_is_an_error_code_not_an_abort",
           \/ ~e.panic \/ e.name = "migrate_repurpose_reward_authority_space"
           \/ (e.name \in {"collect_reward", "collect_reward_v2", "set_reward_emissions", "set_reward_emissions_v2"} /\ Has(e.args, "index") /\ e.args.index >= 3))
  \* (6067 = PositionWithTokenExtensionsRequired)
  /\ IF e.name = "open_position_with_token_extensions"
     THEN Wider("W1.token_extensions_open_never_refused_for_the_requirement", ~(e.err \doteq 6067)) ELSE TRUE
  /\ IF e.name = "migrate_repurpose_reward_authority_space" /\ e.panic /\ Id(e, "whirlpool") \in DOMAIN pre.pool
     THEN Wider("W4.migration_refused_only_when_done", pre.pool[Id(e, "whirlpool")].ext2zero) ELSE TRUE
  \* an open refused with that error code names a pool that carries the requirement (whatever the driver); in the wider driver, whose
  \* ranges and bundle indexes are valid, a plain open is refused for no other reason
  /\ IF e.name \in {"open_position", "open_position_with_metadata", "open_bundled_position"} /\ e.err \doteq 6067
     THEN Wider("W1.refused_for_the_requirement_only_where_it_holds", HasSlot(e, "whirlpool") /\ Id(e, "whirlpool") \in DOMAIN pre.pool /\ NTRequired(pre, Id(e, "whirlpool"))) ELSE TRUE
  /\ IF e.name \in {"open_position", "open_position_with_metadata", "open_bundled_position"} /\ ~e.probe /\ "wider" \in DOMAIN e.args
     THEN Wider("W1.plain_open_refused_only_for_the_requirement", e.err \doteq 6067) ELSE TRUE

(* the per-event transition *)
IxOK(pre, e, post) ==
  /\ WiderOK(pre, e, post)
  /\ Chk("C20", "sdk_quote", C20Quote(e))
  /\ IF IsSwapName(e.name) THEN Chk("C20", "sdk_user_level_quote", C20QuoteUser(pre, e, post)) ELSE TRUE
  /\ IF e.name \in {"increase_liquidity", "increase_liquidity_v2", "decrease_liquidity", "decrease_liquidity_v2"} THEN Chk("C20", "sdk_liquidity_quote", C20Liquidity(pre, e, post)) ELSE TRUE
  /\ Chk("C19", "params_in_bounds", C19State(post))
  /\ Chk("C19", "mint_admission", C19Admission(pre, e))
  \* (setters reject out-of-bound values; the property bounds pools and fee tiers in every state, the config's default only
  \* through its setter - a config created with another default must still not lead to a pool carrying it: pool_bounds)
  /\ IF e.name = "set_default_protocol_fee_rate" THEN Chk("C19", "setter_rejects_out_of_bound", post.cfg[Id(e, "whirlpools_config")].defaultProtoRate <= 2500) ELSE TRUE
  /\ IF e.name \in {"initialize_pool", "initialize_pool_v2", "initialize_pool_with_adaptive_fee"}
     THEN Chk("C19", "pool_created_from_tier_and_config", InitPoolEffect(pre, e, post)) ELSE TRUE
  /\ Chk("C18", "life_cycle", C18Event(pre, e, post))
  /\ IF IsSwapName(e.name) THEN Chk("C10", "path", C10Swap(pre, e, post)) ELSE TRUE
  /\ Chk("C10", "packaging", C10Pack(pre, e))
  /\ Chk("C17", "two_hop", C17TwoHop(pre, e, post))
  /\ IF e.name \in {"two_hop_swap", "two_hop_swap_v2"} THEN Chk("C03", "two_hop_bounds", C03TwoHop(pre, e, post)) ELSE TRUE
  /\ IF e.name \in {"two_hop_swap", "two_hop_swap_v2"} THEN Chk("C06", "two_hop_split", C06TwoHop(pre, e, post)) ELSE TRUE
  /\ Chk("C04", "authorised", Guard(pre, e))
  /\ Chk("C04", "setter_effect", SetterEffect(pre, e, post))
  /\ Chk("C15", "accounts_belong", Guard(pre, e))
  \* reposition of a position WITHOUT liquidity: the old range's tick-array slots are not used - and not looked at - by the
  \* program; a tick array of ANOTHER pool supplied there is accepted (recorded, see known_findings.json)
  /\ IF e.name = "reposition_liquidity_v2" /\ Id(e, "position") \in DOMAIN pre.pos /\ pre.pos[Id(e, "position")].liq \doteq 0
     THEN Soft("C15", "unused_old_range_arrays_belong", e.name,
               \A sl \in {"existing_tick_array_lower", "existing_tick_array_upper"} : NotForeignArray(pre, Id(e, sl), Id(e, "whirlpool")))
     ELSE TRUE
  /\ Chk("C12", "anchor_equals_pinocchio", DualOK(e))
  /\ Chk("C12", "entrypoint_routing", e.routing \in {"none", "same"})
  /\ Chk("C13", "tick_array_encoding", C13State(post))
  /\ IF e.name \in {"initialize_tick_array", "initialize_dynamic_tick_array"} THEN Chk("C13", "array_created_empty", InitTickArrayEffect(pre, e, post)) ELSE TRUE
  \* (an array off the grid of start indexes is never looked at by a swap: the ticks it holds would be skipped)
  /\ IF e.name \in {"initialize_tick_array", "initialize_dynamic_tick_array"} THEN Chk("C10", "array_on_the_grid", InitTickArrayEffect(pre, e, post)) ELSE TRUE
  /\ IF e.name \in {"initialize_tick_array", "initialize_dynamic_tick_array"} THEN Chk("C05", "array_on_the_grid", InitTickArrayEffect(pre, e, post)) ELSE TRUE
  /\ IF e.name \in {"initialize_reward", "initialize_reward_v2"} THEN Chk("C11", "reward_initialised", InitRewardEffect(pre, e, post)) ELSE TRUE
  /\ IF e.name \in {"initialize_fee_tier", "initialize_adaptive_fee_tier"} THEN Chk("C19", "tier_created", InitTierEffect(pre, e, post)) ELSE TRUE
  /\ IF e.name \in {"initialize_token_badge", "delete_token_badge"} THEN Chk("C19", "badge_effect", BadgeEffect(pre, e, post)) ELSE TRUE
  /\ Chk("C05", "liq_sum", \A p \in DOMAIN post.pool : LiqSum(post, p))
  /\ Chk("C05", "tick_sums", \A p \in DOMAIN post.pool : TickSums(post, p))
  /\ Chk("C01", "solvent", Solvent(post))
  /\ Chk("C01", "no_free_lunch",
         (e.ok /\ IsSwapName(e.name)) => NoFreeLunch(SegAfter(pre, e, post)[APool(e)]))
  /\ Chk("C02", "hist_steps", \A k \in DOMAIN e.swaps : \A i \in DOMAIN e.swaps[k].steps :
                                  StepOK(StepX(e.swaps[k], e.swaps[k].steps[i]), StepR(e.swaps[k].steps[i])))
  /\ IF IsSwapName(e.name)
     THEN /\ Chk("C03", "swap_bounds", C03Swap(pre, e, post))
          /\ Chk("C06", "swap_split", NoTransferFee(pre, APool(e)) => C06Swap(pre, e, post))
          /\ Chk("C06", "swap_split_with_transfer_fee", ~NoTransferFee(pre, APool(e)) => C06SwapTf(pre, e, post))
     ELSE TRUE
  /\ Chk("C11", "accrual", C11Accrual(pre, e, post))
  /\ IF e.name \in {"set_reward_emissions", "set_reward_emissions_v2"}
     THEN Chk("C11", "set_emissions", C11SetEmissions(pre, e, post)) ELSE TRUE
  /\ IF e.name \in {"collect_reward", "collect_reward_v2"}
     THEN Chk("C11", "collect_reward", C11Collect(pre, e, post)) ELSE TRUE
  /\ IF e.name \in {"collect_fees", "collect_fees_v2"} THEN Chk("C01", "collect_fees_exact", CollectFees(pre, e, post)) ELSE TRUE
  /\ IF e.name \in {"collect_protocol_fees", "collect_protocol_fees_v2"}
     THEN Chk("C06", "collect_protocol", C06CollectProtocol(pre, e, post))
     ELSE TRUE
  /\ IF IsSwapName(e.name) /\ APool(e) \in DOMAIN pre.oracle THEN Chk("C14", "adaptive_swap", C14Swap(pre, e, post)) ELSE TRUE
  /\ Chk("C14", "accumulator_within_maximum", \A p \in DOMAIN post.oracle : post.oracle[p].volAcc \preceq post.oracle[p].maxAcc /\ post.oracle[p].volRef \preceq post.oracle[p].maxAcc)
  /\ IF e.name = "swap_v2" THEN Chk("C16", "swap_v2", C16Swap(pre, e, post)) ELSE TRUE
  /\ IF e.name = "increase_liquidity_v2" THEN Chk("C16", "increase_v2", C16Modify(pre, e, post, TRUE)) ELSE TRUE
  /\ IF e.name = "decrease_liquidity_v2" THEN Chk("C16", "decrease_v2", C16Modify(pre, e, post, FALSE)) ELSE TRUE
  /\ IF e.name = "increase_liquidity_by_token_amounts_v2"
     THEN Chk("C08", "by_token_amounts", ByAmounts(pre, e, post)) /\ Chk("C16", "by_token_amounts_v2", ByAmounts(pre, e, post)) ELSE TRUE
  /\ IF e.name = "reposition_liquidity_v2"
     THEN /\ Chk("C08", "reposition_amounts", Reposition(pre, e, post)) /\ Chk("C16", "reposition_v2", Reposition(pre, e, post))
          /\ Chk("C16", "reposition_event_transfers", RepositionEventTransfers(pre, e, post))
     ELSE TRUE
  /\ IF e.name \in {"increase_liquidity", "increase_liquidity_v2"}
     THEN Chk("C08", "increase_amounts", NoTransferFee(pre, pre.pos[APos(e)].pool) => C08Modify(pre, e, post, TRUE))
     ELSE TRUE
  /\ IF e.name \in {"decrease_liquidity", "decrease_liquidity_v2"}
     THEN Chk("C08", "decrease_amounts", NoTransferFee(pre, pre.pos[APos(e)].pool) => C08Modify(pre, e, post, FALSE))
     ELSE TRUE

(* C20, last clause, at the level of the SDK's user-facing quote: where the program refuses a swap for a reason that lies
   in the pool / tick-array / oracle state, the SDK may produce a number only for a partial exact-out fill (6057) or for
   running off the supplied tick arrays (6038 / 6023).  Refusals that depend on what the quote is not given - the caller's
   slippage threshold (6036 / 6037) or the trader's token balance (token-program error 1) - do not count.          *)
C20UserQuoteOnRefusal(e) ==
  (IsSwapName(e.name) /\ e.sdkUser.present /\ e.sdkUser.ok) =>
     (e.err \doteq 6057 \/ e.err \doteq 6038 \/ e.err \doteq 6023 \/ e.err \doteq 6036 \/ e.err \doteq 6037 \/ e.err \doteq 1)

IxFailed(pre, e) ==
  /\ WiderFailed(pre, e)
  \* the largest-liquidity computation returns for every state (C08: "... price exactly on a range bound"): the instruction may refuse
  \* (price window, maxima, zero liquidity) with an error code, it never aborts
  /\ IF e.name = "increase_liquidity_by_token_amounts_v2" THEN Chk("C08", "by_token_amounts_refuses_with_an_error_code", ~e.panic) ELSE TRUE
  /\ Chk("C20", "sdk_quote_on_failure", C20Quote(e))
  /\ Chk("C20", "sdk_user_level_quote_on_refusal", C20UserQuoteOnRefusal(e))
  /\ Chk("C10", "packaging_failed", C10Pack(pre, e))
  /\ Chk("C12", "anchor_equals_pinocchio_on_failure", DualOK(e))
  /\ Chk("C12", "entrypoint_routing_on_failure", e.routing \in {"none", "same"})
  /\ Chk("ANY", "must_succeed", ~e.must)
  /\ Chk("ANY", "atomic", EmptyDiff(e.diff))

Init == l = 1 /\ st = [now |-> 0] /\ gh = [seg |-> <<>>, led |-> <<>>, rled |-> <<>>] /\ TLCSet(7, <<"none", "none">>) /\ TLCSet(8, "none") /\ TLCSet(9, <<>>) /\ TLCSet(10, <<>>) /\ TLCSet(11, <<>>)

Next ==
  /\ l <= Len(Rec)
  /\ l' = l + 1
  /\ LET e == Rec[l] IN
     CASE e.k = "reset" ->
            /\ st' = [sec \in Sections |-> e.state[sec]] @@ [prices |-> e.prices, now |-> e.now]
            /\ gh' = [seg |-> <<>>, led |-> IF "C07" \in Active THEN [k \in DOMAIN e.state.pos |-> LedOpen(st', k)] ELSE <<>>,
                      rled |-> IF "C11" \in Active THEN [k \in DOMAIN e.state.pos |-> RLedOpen(st', k)] ELSE <<>>]
            /\ Chk("C19", "params_in_bounds_reset", C19State(st'))
            /\ Chk("C05", "liq_sums_reset", C05State(st'))
            /\ Chk("C01", "solvent_reset", Solvent(st'))
       [] e.k = "setup_failed" ->
            \* a valid instruction of the driver's own preparation of the world was refused by the program
            /\ Chk("ANY", "setup_instruction_must_succeed", FALSE)
            /\ UNCHANGED <<st, gh>>
       [] e.k = "clock" ->
            /\ st' = [st EXCEPT !.now = e.now]
            /\ gh' = gh
       [] e.k = "ix" ->
            \* probes (matrix driver) are executed on a copy of the bank, possibly after a recorded tweak
            \* (preDiff) of the state; they are checked but do not advance the specification state
            \* (the table of tick prices is only ever extended: the prices this event brings - e.g. of the tick a recorded tweak moved the
            \* pool to - are available to the predicates about its pre-state as well)
            LET pre0 == IF e.hasPreDiff THEN ApplyDiff(st, e.preDiff) ELSE st
                pre  == [pre0 EXCEPT !.prices = MergeFn(st.prices, e.prices)] IN
            IF e.ok
            THEN LET post == Apply(pre, e) IN
                 /\ IxOK(pre, e, post)
                 /\ Cover(Situations(pre, e, post))
                 /\ IF e.probe
                    THEN st' = [st EXCEPT !.prices = MergeFn(st.prices, e.prices)] /\ gh' = gh
                    ELSE /\ st' = post
                         /\ gh' = [seg |-> SegAfter(pre, e, post),
                                   led |-> IF "C07" \in Active THEN LedAfter(gh.led, pre, e, post) ELSE <<>>,
                                   rled |-> IF "C11" \in Active THEN RLedAfter(gh.rled, pre, e, post) ELSE <<>>]
                         /\ Chk("C07", "fee_ledger_at_rerange", "C07" \in Active => C07AtRerange(gh.led, pre, e, post))
                         /\ Chk("C11", "reward_ledger_at_rerange", "C11" \in Active => C11AtRerange(gh.rled, pre, e, post))
                         /\ Chk("C07", "fee_ledger", C07Ledger(gh'.led, post))
                         /\ Chk("C11", "reward_ledger", C11Ledger(gh'.rled, post))
            ELSE /\ IxFailed(pre, e)
                 /\ Cover(FailSituations(pre, e))
                 /\ st' = [st EXCEPT !.prices = MergeFn(st.prices, e.prices)]
                 /\ gh' = gh

Spec == Init /\ [][Next]_vars

Accepted ==
  LET d == TLCGet("stats").diameter IN
  IF d - 1 = Len(Rec) THEN /\ ("COV" \in Active => PrintT(<<"SITUATIONS", ToJson(TLCGet(9))>>))
                           /\ (TLCGet(10) # <<>> => PrintT(<<"RECORDED", ToJson(TLCGet(10))>>))
                           /\ (TLCGet(11) # <<>> => PrintT(<<"WIDER", ToJson(TLCGet(11))>>))
  ELSE /\ PrintT(<<"REJECTED", d, TLCGet(7)[1], TLCGet(7)[2], TLCGet(8)>>)
       /\ FALSE
=============================================================================
