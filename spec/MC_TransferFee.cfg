SPECIFICATION Spec
CONSTANTS
  QBits = 6
  WrapBits = 20
  AmtBits = 14
  FeeDen = 1000000
  ProtoDen = 10000
  MaxAmt = 200
  Bpss = {0, 1, 100, 5000, 9999, 10000}
  Maxs = {0, 1, 2, 3, 5, 8, 12, 1000}
INVARIANT Exists
INVARIANT Smallest
INVARIANT Monotone
INVARIANT AddsBack
CHECK_DEADLOCK FALSE
