SPECIFICATION Spec
CONSTANTS
  QBits = 6
  WrapBits = 20
  AmtBits = 14
  FeeDen = 1000000
  ProtoDen = 10000
  PMin = 40
  PMax = 110
  PStep = 3
  LMax = 1500
  LStep = 75
  AMax = 60
  AStep = 1
  Rates = {0, 3000, 60000, 100000}
INVARIANT ContractHolds
INVARIANT Sane
CHECK_DEADLOCK FALSE
