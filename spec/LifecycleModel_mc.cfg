SPECIFICATION Spec
CONSTANT Depth = 7
INVARIANT TypeOK
PROPERTY LockedKeepsLiquidity
PROPERTY ClosedOnlyEmpty
PROPERTY OnlyLiquidLocks
CHECK_DEADLOCK FALSE
