------------------------- MODULE MintAdmissionModel -------------------------
(* C19 (G): enumeration of Token-2022 mint shapes: ordered sequences (TLV order matters to a parser)
   of up to three distinct extension types drawn from the types the admission rule distinguishes plus
   an account-level type, a group type and an unknown number; freeze authority yes/no; default account
   state; truncated TLV; token-badge status.  Each case is one initial state, printed for the harness. *)
EXTENDS WpMintAdmission, TLC, Json
Types == {1, 3, 4, 6, 9, 10, 12, 14, 16, 18, 19, 25, 26, 2, 20, 999}
Seqs == {<<>>} \cup {<<a>> : a \in Types} \cup {<<a, b>> : a \in Types, b \in Types} \cup {<<a, b, c>> : a \in Types, b \in Types, c \in Types}
Distinct(s) == \A i, j \in DOMAIN s : i # j => s[i] # s[j]
VARIABLE c
Init == /\ c \in [exts : {s \in Seqs : Distinct(s)}, freeze : BOOLEAN, dstate : {1, 2}, trunc : BOOLEAN,
                  badge : {"present", "absent", "otherConfig", "otherMint", "notOwned"}]
        /\ (c.dstate = 2 => 6 \in {c.exts[i] : i \in DOMAIN c.exts})
        /\ (c.trunc => Len(c.exts) > 0)
Next == UNCHANGED c
Spec == Init /\ [][Next]_c
M == [prog |-> "t22", exts |-> c.exts, freeze |-> IF c.freeze THEN "key" ELSE "none", defaultState |-> c.dstate, tlvOk |-> ~c.trunc, native |-> FALSE]
(* sanity of the table itself *)
NeverNonTransferable == (9 \in ExtSet(M)) => ~Admitted(M, TRUE)
NeverUnknown         == (999 \in ExtSet(M) \/ 2 \in ExtSet(M) \/ 20 \in ExtSet(M)) => ~Admitted(M, TRUE)
PlainAlwaysOk        == (c.exts = <<>> /\ ~c.freeze) => Admitted(M, FALSE)
BadgeNeverHurts      == Admitted(M, FALSE) => Admitted(M, TRUE)
Emit == PrintT("REPLAY " \o ToJson(c))
=============================================================================
