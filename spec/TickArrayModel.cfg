SPECIFICATION Spec
VIEW view
INVARIANT TypeOK
INVARIANT Emit
CHECK_DEADLOCK FALSE
