---------------------------- MODULE WpTickArray ----------------------------
(* C13 (T): one tick array as an abstract function slot -> payload (or none), its queries and
   its dynamic encoding; validates recorded updates / queries of the four implementations
   (Anchor fixed, Anchor dynamic, Pinocchio fixed, Pinocchio dynamic) driven in lock-step.      *)
EXTENDS Integers, Sequences, FiniteSets, Json, IOUtils, TLC

CONSTANT Active
Rec == ndJsonDeserialize(IOEnv.TRACE)
VARIABLES l, arr          \* arr = [start, spacing, content : 0..87 -> payload id or "none"]
Chk(prop, name, c) ==
  IF prop \notin Active THEN TRUE ELSE IF (TLCSet(8, "-") /\ c) THEN TRUE ELSE (TLCSet(7, <<prop, name>>) /\ FALSE)
Sub(name, c) == IF c THEN TRUE ELSE (TLCSet(8, name) /\ FALSE)

MinTick == -443636
MaxTick == 443636
Slots == 0..87

(* a tick index is usable in this array iff it is in the array's bounds, a multiple of the spacing
   from the start, and inside the protocol's tick range *)
InBounds(a, t)  == t >= a.start /\ t < a.start + 88 * a.spacing
Usable(a, t)    == InBounds(a, t) /\ (t - a.start) % a.spacing = 0 /\ t >= MinTick /\ t <= MaxTick
SlotOf(a, t)    == (t - a.start) \div a.spacing
InitSlots(c)    == {s \in Slots : c[s] # "none"}
ContentList(c)  == {<<s, c[s]>> : s \in InitSlots(c)}
ListSet(lst)    == {<<lst[i][1], lst[i][2]>> : i \in DOMAIN lst}

(* next initialized tick: search range shifted by one spacing for b->a; a->b is inclusive of the
   slot containing the tick and moves left, b->a starts at the next slot and moves right *)
InSearchRange(a, t, aToB) ==
  LET sh == IF aToB THEN 0 ELSE a.spacing IN t >= a.start - sh /\ t < a.start + 88 * a.spacing - sh
FloorSlot(a, t) == (t - a.start) \div a.spacing          \* TLA+ \div is floor division
NextInit(a, t, aToB) ==
  IF ~InSearchRange(a, t, aToB) THEN "err"
  ELSE LET o == IF aToB THEN FloorSlot(a, t) ELSE FloorSlot(a, t) + 1
           S == IF aToB THEN {s \in InitSlots(a.content) : s <= o} ELSE {s \in InitSlots(a.content) : s >= o}
       IN IF S = {} THEN "none"
          ELSE LET s == IF aToB THEN CHOOSE x \in S : \A y \in S : y <= x ELSE CHOOSE x \in S : \A y \in S : y >= x
               IN a.start + s * a.spacing

After(a, e) ==   \* content after an update event
  IF Usable(a, e.tick) THEN [a.content EXCEPT ![SlotOf(a, e.tick)] = e.payload] ELSE a.content

UpdateOK(a, e) ==
  LET c2 == After(a, e)
      n  == Cardinality(InitSlots(c2))
      v  == e.views
  IN /\ Sub("same_errors", \A i \in 1..4 : e.res[i] = Usable(a, e.tick))
     /\ Sub("fixed_contents", ListSet(v.af) = ContentList(c2) /\ ListSet(v.pf) = ContentList(c2))
     /\ Sub("dynamic_contents", ListSet(v.ad) = ContentList(c2) /\ ListSet(v.pd) = ContentList(c2))
     /\ Sub("bitmap_exact", {v.adMeta.bitmap[i] : i \in DOMAIN v.adMeta.bitmap} = InitSlots(c2)
                         /\ {v.pdMeta.bitmap[i] : i \in DOMAIN v.pdMeta.bitmap} = InitSlots(c2))
     /\ Sub("used_length", v.adMeta.used = 148 + 112 * n /\ v.pdMeta.used = 148 + 112 * n)
     /\ Sub("well_formed", v.adMeta.wf /\ v.pdMeta.wf)
     /\ Sub("anchor_pinocchio_same_bytes", v.fixedSame /\ v.dynSame)

GetOK(a, e) ==
  LET exp == IF Usable(a, e.tick) THEN a.content[SlotOf(a, e.tick)] ELSE "err" IN
  \A i \in 1..6 : e.res[i] = exp

NextOK(a, e) == \A i \in 1..3 : e.res[i] = NextInit(a, e.tick, e.aToB)

Init == l = 1 /\ arr = [start |-> 0, spacing |-> 1, content |-> [s \in Slots |-> "none"]] /\ TLCSet(7, <<"none", "none">>) /\ TLCSet(8, "none")
Next ==
  /\ l <= Len(Rec)
  /\ l' = l + 1
  /\ LET e == Rec[l] IN
     CASE e.k = "ta_reset" -> arr' = [start |-> e.start, spacing |-> e.spacing, content |-> [s \in Slots |-> "none"]]
       [] e.k = "ta_update" -> /\ Chk("C13", "update", UpdateOK(arr, e))
                               /\ arr' = IF e.probe THEN arr ELSE [arr EXCEPT !.content = After(arr, e)]
       [] e.k = "ta_get"  -> Chk("C13", "get", GetOK(arr, e)) /\ UNCHANGED arr
       [] e.k = "ta_next" -> Chk("C13", "next_init", NextOK(arr, e)) /\ UNCHANGED arr
       [] OTHER -> FALSE
Spec == Init /\ [][Next]_<<l, arr>>
Accepted ==
  LET d == TLCGet("stats").diameter IN
  IF d - 1 = Len(Rec) THEN TRUE
  ELSE PrintT(<<"REJECTED", d, TLCGet(7)[1], TLCGet(7)[2], TLCGet(8)>>) /\ FALSE
=============================================================================
