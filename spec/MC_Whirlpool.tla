---------------------------- MODULE MC_Whirlpool ----------------------------
(* Toy-scale instance of Whirlpool for exhaustive model checking:
   fixed-point one = 2^6, accumulators wrap at 2^20 (and are started just below the wrap, so
   wrap-around really happens), 5 ticks, 2 positions, 2 liquidity providers, 1 trader.        *)
EXTENDS Whirlpool

MCPriceOf == [t \in -2..2 |-> CASE t = -2 -> 52 [] t = -1 -> 58 [] t = 0 -> 64 [] t = 1 -> 71 [] t = 2 -> 78]
MCMinTick == -2
MCRanges == {<<-2, 2>>, <<-1, 1>>, <<0, 2>>, <<-2, 0>>, <<-1, 0>>, <<0, 1>>}
MCStartGrowth == {0, 1048575}     \* (2^20 - 1: the first unit of fee growth wraps the accumulator)
MCNoLimits == {0}
MCVacuous == {-1}
MCLimits == {0, 55, 58, 61, 68, 71}      \* none, inside a tick, exactly on a tick (both sides of the start price)
MCThresholds == {-1, 6}
MCCovLimits == {0, 58, 68}

(* Vacuity guard (run with -workers 1 on a small bound): every kind of operation is taken in some
   behaviour, and a swap with several steps / a crossing / a wrap-around occurs.               *)
OpIndex == [init |-> 10, open |-> 11, close |-> 12, increase |-> 13, decrease |-> 14, update |-> 15,
            collect |-> 16, collect_protocol |-> 17, swap |-> 18, forget |-> 10]
CovInit == Init /\ \A i \in 10..24 : TLCSet(i, FALSE)
CovSpec == CovInit /\ [][Next]_vars
Tally ==
  /\ TLCSet(OpIndex[last.op], TRUE)
  /\ (last.op = "swap" /\ Len(last.steps) > 1) => TLCSet(19, TRUE)
  /\ (last.op = "swap" /\ \E k \in DOMAIN last.steps : last.steps[k].crossed /\ last.steps[k].L > 0) => TLCSet(20, TRUE)
  /\ (\E t \in Tok : fg[t] < 1000 /\ \E i \in PosIds : pos[i].open /\ (pos[i].ca > 1000000 \/ pos[i].cb > 1000000)) => TLCSet(21, TRUE)
  /\ (last.op = "swap" /\ last.lim # 0 /\ (IF last.exactIn THEN last.ain ELSE last.aout) < last.amt /\ sp = last.lim) => TLCSet(22, TRUE)   \* stopped at an explicit limit
  /\ (last.op = "swap" /\ last.lim # 0 /\ \E t \in Ticks : ticks[t].init /\ P(t) = sp) => TLCSet(23, TRUE)                                   \* ... which is an initialized tick
  /\ (last.op = "swap" /\ last.threshold \notin {0, 1000000}) => TLCSet(24, TRUE)                                                           \* with a real slippage threshold
\* fees are really credited, protocol fees really accrue, and both are really paid out (with liquidity units of 640 and more and
\* amounts up to 40 the fee growth per unit of liquidity rounds to zero in every step: the fee invariants would hold vacuously)
TallyFees ==
  /\ (\E i \in PosIds : \E t \in Tok : credited[i][t] > 0) => TLCSet(31, TRUE)
  /\ (\E t \in Tok : po[t] > 0) => TLCSet(32, TRUE)
  /\ (last.op = "collect" /\ (last.paid[1] > 0 \/ last.paid[2] > 0)) => TLCSet(33, TRUE)
  /\ (last.op = "collect_protocol" /\ (last.paid[1] > 0 \/ last.paid[2] > 0)) => TLCSet(34, TRUE)
  \* (in the instance that starts both accumulators at 2^20 - 1) a fee was credited across the wrap-around of the global accumulator
  /\ (\E t \in Tok : fg[t] < 1000 /\ \E i \in PosIds : credited[i][t] > 0) => TLCSet(35, TRUE)
MCStartHigh == {1048575}
CovFeesInit == Init /\ \A i \in 10..35 : TLCSet(i, FALSE)
CovFeesSpec == CovFeesInit /\ [][Next]_vars
CovFeesOK == \A i \in {31, 32, 33, 34, 35} : TLCGet(i) \/ (PrintT(<<"never taken", i>>) /\ FALSE)
CovOK == \A i \in 11..20 : TLCGet(i)
\* (register 24 is informative only: a swap with a real threshold reaches the same core state as one without, and the VIEW keeps one of them)
CovLimitsOK == \A i \in 11..23 : i = 21 \/ TLCGet(i) \/ (PrintT(<<"never taken", i>>) /\ FALSE)
=============================================================================
