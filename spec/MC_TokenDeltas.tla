--------------------------- MODULE MC_TokenDeltas ---------------------------
(* C08 (M): theorems of the specification's TokenDeltas on a complete toy domain: adding then
   removing the same liquidity at an unchanged price returns at most what was paid and loses at
   most one unit per token; only token A below the range, only token B above; cost is monotone
   in the liquidity.  Each tuple is one initial state.                                          *)
EXTENDS WpMath, TLC

CONSTANTS LMax
PriceOf == [t \in -3..3 |-> CASE t = -3 -> 47 [] t = -2 -> 52 [] t = -1 -> 58 [] t = 0 -> 64 [] t = 1 -> 71 [] t = 2 -> 78 [] t = 3 -> 86]
Ticks == -2..2

VARIABLE x   \* [tick, sp, lo, up, L]
Init ==
  /\ x \in [tick : -3..2, sp : 47..86, lo : Ticks, up : Ticks, L : 0..LMax]
  /\ x.lo < x.up
  \* the pool state is consistent: price inside the tick, or the shifted state after a downward crossing
  /\ \/ PriceOf[x.tick] <= x.sp /\ x.sp < PriceOf[x.tick + 1]
     \/ x.sp = PriceOf[x.tick + 1]
Next == UNCHANGED x
Spec == Init /\ [][Next]_x

Up(L)   == TokenDeltas(x.tick, x.sp, x.lo, x.up, PriceOf[x.lo], PriceOf[x.up], L, TRUE)
Down(L) == TokenDeltas(x.tick, x.sp, x.lo, x.up, PriceOf[x.lo], PriceOf[x.up], L, FALSE)

RoundTrip == \A k \in 1..2 : Down(x.L)[k] <= Up(x.L)[k] /\ Up(x.L)[k] <= Down(x.L)[k] + 1
OneSided  == /\ x.tick < x.lo => Up(x.L)[2] = 0 /\ Down(x.L)[2] = 0
             /\ x.tick >= x.up => Up(x.L)[1] = 0 /\ Down(x.L)[1] = 0
Monotone  == \A k \in 1..2 : Up(x.L)[k] <= Up(x.L + 1)[k] /\ Down(x.L)[k] <= Down(x.L + 1)[k]
(* splitting a deposit never costs less than depositing at once (no gain from splitting), and
   withdrawing in two parts never returns more *)
SplitSafe == \A k \in 1..2 : \A a \in {0, 1, x.L \div 2} :
                /\ Up(a)[k] + Up(x.L - a)[k] >= Up(x.L)[k]
                /\ Down(a)[k] + Down(x.L - a)[k] <= Down(x.L)[k]
=============================================================================
