------------------------------ MODULE Whirlpool ------------------------------
(* The Whirlpool protocol as a state machine: one pool, its tick map, positions, fee
   accumulators, vaults and users.  One action per instruction as dispatched by the program
   (the swap is the program's loop: one WpMath!Step per iteration, crossing update, fee split).
   Arithmetic is WpMath's exact integer arithmetic with the rounding direction written out;
   accumulators wrap at 2^WrapBits as on chain.

   This module is parametric; MC_Whirlpool instantiates it at toy scale for exhaustive model
   checking (all interleavings of a few operations).  The same definitions of WpMath are
   evaluated at full scale by WpTrace on recorded executions of the real program.

   Deliberate quirks of the code that are modelled as such:
     - fee credit overflow => 0 (Credit), owed amounts wrap (WrapAmt);
     - an a->b crossing leaves tick = t - 1, b->a leaves tick = t;
     - a new tick's outside values are the globals iff tick_current >= tick;
     - a position update with delta = 0 on an empty position fails;
     - exact-out partial fills are rejected only when no explicit limit is given.          *)
EXTENDS WpMath, Integers, Sequences, FiniteSets, TLC

CONSTANTS
  MinTick, MaxTick,        \* usable tick range of the toy pool (spacing 1)
  PriceOf,                 \* function tick -> sqrt-price (strictly increasing)
  FeeRate, ProtoRate,      \* static fee rate, protocol fee rate
  PosIds, Users, Traders,  \* position identifiers, liquidity providers, users who only swap
  Ranges,                  \* set of <<lo, up>> ranges positions may be opened over
  LiqUnits, Amounts,       \* liquidity deltas and swap amounts drawn by the environment
  StartGrowth,             \* set of initial values of the fee-growth accumulators
  Limits, Thresholds,      \* price limits (0 = none) and slippage thresholds (-1 = vacuous) a trader may give
  MaxOps                   \* bound on the number of operations (CONSTRAINT)

Ticks == MinTick..MaxTick
P(t) == PriceOf[t]
MinP == P(MinTick)
MaxP == P(MaxTick)
Tok == {"a", "b"}

VARIABLES
  sp, tc, liq,       \* pool: sqrt price, current tick index, in-range liquidity
  fg, po,            \* fee growth global / protocol fee owed, per token
  ticks,             \* tick -> [init, net, gross, oa, ob]
  pos,               \* position id -> [open, owner, lo, up, L, ca, cb, owa, owb]
  vault,             \* token -> vault balance
  gain,              \* user -> token -> net tokens received from the pool: by a liquidity provider so far, by a trader since the last
                     \* change of any position's liquidity (the current swap-only segment, see NoFreeLunch)
  \* ---- ghost / history variables (hidden from the fingerprint by the VIEW of MC_Whirlpool)
  shareHi, shareLo,  \* position -> token -> Q-scaled upper / lower bound of the exact pro-rata share
  credited,          \* position -> token -> fees credited so far (sum of increments of owed)
  nsteps,            \* position -> number of in-range swap steps + credits (rounding slack)
  lmax,              \* position -> largest liquidity it ever held (rounding slack)
  last,              \* description of the last operation (for action properties)
  ops

vars  == <<sp, tc, liq, fg, po, ticks, pos, vault, gain, shareHi, shareLo, credited, nsteps, lmax, last, ops>>
view  == <<sp, tc, liq, fg, po, ticks, pos, vault, ops>>                        \* core state only
viewG == <<sp, tc, liq, fg, po, ticks, pos, vault, ops, gain>>                  \* + cumulative user flows (NoFreeLunch)
viewL == <<sp, tc, liq, fg, po, ticks, pos, vault, ops, shareHi, shareLo, credited, nsteps, lmax>>  \* + fee ledgers (C07)
core  == <<sp, tc, liq, fg, po, ticks, pos, vault>>

ZeroTick == [init |-> FALSE, net |-> 0, gross |-> 0, oa |-> 0, ob |-> 0]
ZeroPos  == [open |-> FALSE, owner |-> CHOOSE u \in Users : TRUE, lo |-> 0, up |-> 0, L |-> 0,
             ca |-> 0, cb |-> 0, owa |-> 0, owb |-> 0]
WrapAmt(x) == Wrap(x, AmtBits)

TickAt(p) == CHOOSE t \in Ticks : P(t) <= p /\ (t = MaxTick \/ p < P(t + 1))

Init ==
  /\ sp = P(0) /\ tc = 0 /\ liq = 0
  /\ fg \in [Tok -> StartGrowth] /\ po = [t \in Tok |-> 0]
  /\ ticks = [t \in Ticks |-> ZeroTick]
  /\ pos = [i \in PosIds |-> ZeroPos]
  /\ vault = [t \in Tok |-> 0]
  /\ gain = [u \in Users \cup Traders |-> [t \in Tok |-> 0]]
  /\ shareHi = [i \in PosIds |-> [t \in Tok |-> 0]]
  /\ shareLo = [i \in PosIds |-> [t \in Tok |-> 0]]
  /\ credited = [i \in PosIds |-> [t \in Tok |-> 0]]
  /\ nsteps = [i \in PosIds |-> 0]
  /\ lmax = [i \in PosIds |-> 0]
  /\ last = [op |-> "init"]
  /\ ops = 0

-----------------------------------------------------------------------------
(* fee growth inside a range, from given tick map / globals *)
InsideOf(tk, g, t, lo, up, which) ==
  LET ol == IF which = "a" THEN tk[lo].oa ELSE tk[lo].ob
      ou == IF which = "a" THEN tk[up].oa ELSE tk[up].ob
  IN GrowthInside(t, lo, up, g[which], tk[lo].init, ol, tk[up].init, ou)
Inside(lo, up, which) == InsideOf(ticks, fg, tc, lo, up, which)

Deltas(lo, up, L, roundUp) == TokenDeltas(tc, sp, lo, up, P(lo), P(up), L, roundUp)

(* tick update of a liquidity change d (signed) at tick t *)
TickMod(t, d, isUpper) ==
  LET tk == ticks[t]
      g  == tk.gross + d
  IN IF g = 0 THEN ZeroTick
     ELSE [init |-> TRUE, net |-> IF isUpper THEN tk.net - d ELSE tk.net + d, gross |-> g,
           oa |-> IF tk.gross = 0 THEN (IF tc >= t THEN fg["a"] ELSE 0) ELSE tk.oa,
           ob |-> IF tk.gross = 0 THEN (IF tc >= t THEN fg["b"] ELSE 0) ELSE tk.ob]

Frame(S) == UNCHANGED S

-----------------------------------------------------------------------------
(* Position life cycle and liquidity *)
Open(i, u, r) ==
  /\ ~pos[i].open /\ r[1] < r[2]
  /\ pos' = [pos EXCEPT ![i] = [ZeroPos EXCEPT !.open = TRUE, !.owner = u, !.lo = r[1], !.up = r[2]]]
  /\ shareHi' = [shareHi EXCEPT ![i] = [t \in Tok |-> 0]]
  /\ shareLo' = [shareLo EXCEPT ![i] = [t \in Tok |-> 0]]
  /\ credited' = [credited EXCEPT ![i] = [t \in Tok |-> 0]]
  /\ nsteps' = [nsteps EXCEPT ![i] = 0]
  /\ lmax' = [lmax EXCEPT ![i] = 0]
  /\ last' = [op |-> "open", pos |-> i, signer |-> u]
  /\ UNCHANGED <<sp, tc, liq, fg, po, ticks, vault, gain>>

Close(i, signer) ==
  /\ pos[i].open /\ signer = pos[i].owner
  /\ pos[i].L = 0 /\ pos[i].owa = 0 /\ pos[i].owb = 0
  /\ pos' = [pos EXCEPT ![i] = ZeroPos]
  /\ last' = [op |-> "close", pos |-> i, signer |-> signer]
  /\ UNCHANGED <<sp, tc, liq, fg, po, ticks, vault, gain, shareHi, shareLo, credited, nsteps, lmax>>

(* A change of liquidity ends the traders' swap-only segment: what a trader gains across it is the liquidity providers' business
   (providing liquidity cheaply after the price has moved through thin liquidity is a gift, not a defect of the pool).            *)
NewSegment == [v \in DOMAIN gain |-> IF v \in Traders THEN [t \in Tok |-> 0] ELSE gain[v]]

(* the position update shared by increase / decrease / update_fees_and_rewards *)
Settled(i, d) ==
  LET p  == pos[i]
      ia == Inside(p.lo, p.up, "a")
      ib == Inside(p.lo, p.up, "b")
      da == Credit(p.L, WSub(ia, p.ca))
      db == Credit(p.L, WSub(ib, p.cb))
  IN [np |-> [p EXCEPT !.L = p.L + d, !.ca = ia, !.cb = ib,
                       !.owa = WrapAmt(p.owa + da), !.owb = WrapAmt(p.owb + db)],
      da |-> da, db |-> db]

Modify(i, signer, d) ==
  LET p    == pos[i]
      s    == Settled(i, d)
      dl   == IF d < 0 THEN -d ELSE d
      amts == Deltas(p.lo, p.up, dl, d > 0)
      u    == p.owner
  IN /\ p.open /\ (signer = p.owner \/ d = 0)          \* update_fees_and_rewards (d = 0) takes no signer at all
     /\ p.L + d >= 0 /\ (d # 0 \/ p.L > 0)
     /\ pos' = [pos EXCEPT ![i] = s.np]
     /\ ticks' = [ticks EXCEPT ![p.lo] = TickMod(p.lo, d, FALSE), ![p.up] = TickMod(p.up, d, TRUE)]
     /\ liq' = IF p.lo <= tc /\ tc < p.up THEN liq + d ELSE liq
     /\ IF d > 0
        THEN /\ vault' = [vault EXCEPT !["a"] = @ + amts[1], !["b"] = @ + amts[2]]
             /\ gain' = [NewSegment EXCEPT ![u]["a"] = @ - amts[1], ![u]["b"] = @ - amts[2]]
        ELSE IF d < 0
        THEN /\ vault["a"] >= amts[1] /\ vault["b"] >= amts[2]        \* the token transfer succeeds
             /\ vault' = [vault EXCEPT !["a"] = @ - amts[1], !["b"] = @ - amts[2]]
             /\ gain' = [NewSegment EXCEPT ![u]["a"] = @ + amts[1], ![u]["b"] = @ + amts[2]]
        ELSE UNCHANGED <<vault, gain>>
     /\ credited' = [credited EXCEPT ![i]["a"] = @ + s.da, ![i]["b"] = @ + s.db]
     /\ nsteps' = [nsteps EXCEPT ![i] = @ + 1]
     /\ lmax' = [lmax EXCEPT ![i] = IF p.L + d > @ THEN p.L + d ELSE @]
     /\ last' = [op |-> IF d > 0 THEN "increase" ELSE IF d < 0 THEN "decrease" ELSE "update",
                 pos |-> i, signer |-> signer, d |-> d, amts |-> amts]
     /\ UNCHANGED <<sp, tc, fg, po, shareHi, shareLo>>

CollectFees(i, signer) ==
  LET p == pos[i] u == p.owner IN
  /\ p.open /\ signer = p.owner
  /\ vault["a"] >= p.owa /\ vault["b"] >= p.owb
  /\ vault' = [vault EXCEPT !["a"] = @ - p.owa, !["b"] = @ - p.owb]
  /\ gain' = [gain EXCEPT ![u]["a"] = @ + p.owa, ![u]["b"] = @ + p.owb]
  /\ pos' = [pos EXCEPT ![i].owa = 0, ![i].owb = 0]
  /\ last' = [op |-> "collect", pos |-> i, signer |-> signer, paid |-> <<p.owa, p.owb>>]
  /\ UNCHANGED <<sp, tc, liq, fg, po, ticks, shareHi, shareLo, credited, nsteps, lmax>>

(* The traders' segment may also be cut at any moment: a run of swaps that STARTS anywhere (e.g. with the price strictly inside a tick,
   left there by earlier swaps) must not be profitable either - every contiguous run of swaps is then the prefix of some segment.    *)
Forget ==
  /\ gain' = NewSegment
  /\ last' = [op |-> "forget"]
  /\ UNCHANGED <<sp, tc, liq, fg, po, ticks, pos, vault, shareHi, shareLo, credited, nsteps, lmax>>

CollectProtocol ==
  /\ vault["a"] >= po["a"] /\ vault["b"] >= po["b"]
  /\ vault' = [vault EXCEPT !["a"] = @ - po["a"], !["b"] = @ - po["b"]]
  /\ po' = [t \in Tok |-> 0]
  /\ last' = [op |-> "collect_protocol", paid |-> <<po["a"], po["b"]>>]
  /\ UNCHANGED <<sp, tc, liq, fg, ticks, pos, gain, shareHi, shareLo, credited, nsteps, lmax>>

-----------------------------------------------------------------------------
(* Swap: the program's loop.  s is the loop state; the ghost share ledgers are advanced per step
   for every position whose range contains the tick of the segment traded in.                 *)
NextInit(tk, t, aToB) ==
  LET S == IF aToB THEN {u \in Ticks : u <= t /\ tk[u].init} ELSE {u \in Ticks : u > t /\ tk[u].init}
  IN IF S = {} THEN (IF aToB THEN MinTick ELSE MaxTick)
     ELSE IF aToB THEN CHOOSE u \in S : \A v \in S : v <= u ELSE CHOOSE u \in S : \A v \in S : v >= u

InRangeOf(i, t) == pos[i].open /\ pos[i].L > 0 /\ pos[i].lo <= t /\ t < pos[i].up

RECURSIVE Loop(_, _, _, _)
Loop(s, exactIn, aToB, limit) ==
  IF ~s.ok \/ s.rem = 0 \/ s.sp = limit THEN s
  ELSE
    LET nt  == NextInit(s.tk, s.tc, aToB)
        tp  == P(nt)
        pt  == IF aToB THEN (IF tp < limit THEN limit ELSE tp) ELSE (IF tp > limit THEN limit ELSE tp)
        x   == [rem |-> s.rem, rate |-> FeeRate, L |-> s.liq, pc |-> s.sp, pt |-> pt, exactIn |-> exactIn, aToB |-> aToB]
        r   == Step(x, MinP, MaxP)
    IN IF ~r.ok THEN [s EXCEPT !.ok = FALSE]
       ELSE
       LET cut  == ProtoCut(r.fee, ProtoRate)
           lp   == r.fee - cut
           g    == GrowthAfter(s.fgin, r.fee, ProtoRate, s.liq)
           rem2 == IF exactIn THEN s.rem - r.in - r.fee ELSE s.rem - r.out
           cal2 == IF exactIn THEN s.calc + r.out ELSE s.calc + r.in + r.fee
           reached == r.p1 = tp
           cross   == reached /\ s.tk[nt].init
           gA   == IF aToB THEN g ELSE fg["a"]
           gB   == IF aToB THEN fg["b"] ELSE g
           tk2  == IF cross THEN [s.tk EXCEPT ![nt] = [@ EXCEPT !.oa = WSub(gA, @), !.ob = WSub(gB, @)]] ELSE s.tk
           liq2 == IF cross THEN (IF aToB THEN s.liq - s.tk[nt].net ELSE s.liq + s.tk[nt].net) ELSE s.liq
           tc2  == IF reached THEN (IF aToB THEN nt - 1 ELSE nt) ELSE IF r.p1 # s.sp THEN TickAt(r.p1) ELSE s.tc
           \* ghost: exact share of this step's LP fee, Q-scaled interval (segment tick = s.tc)
           hi2  == [i \in PosIds |-> IF InRangeOf(i, s.tc) /\ s.liq > 0 THEN s.hi[i] + CeilDiv(lp * pos[i].L * Q, s.liq) ELSE s.hi[i]]
           lo2  == [i \in PosIds |-> IF InRangeOf(i, s.tc) /\ s.liq > 0 THEN s.lo[i] + BDiv(lp * pos[i].L * Q, s.liq) ELSE s.lo[i]]
           n2   == [i \in PosIds |-> IF InRangeOf(i, s.tc) THEN s.n[i] + 1 ELSE s.n[i]]
           st2  == Append(s.steps, [x |-> x, r |-> r, cut |-> cut, L |-> s.liq, crossed |-> cross, tick |-> nt])
       IN Loop([ok |-> TRUE, rem |-> rem2, calc |-> cal2, sp |-> r.p1, tc |-> tc2, liq |-> liq2, fgin |-> g,
                proto |-> s.proto + cut, tk |-> tk2, hi |-> hi2, lo |-> lo2, n |-> n2, steps |-> st2],
               exactIn, aToB, limit)

Swap(u, amt, threshold, lim, exactIn, aToB) ==
  LET limit == IF lim = 0 THEN (IF aToB THEN MinP ELSE MaxP) ELSE lim
      tin   == IF aToB THEN "a" ELSE "b"
      tout  == IF aToB THEN "b" ELSE "a"
      s0    == [ok |-> TRUE, rem |-> amt, calc |-> 0, sp |-> sp, tc |-> tc, liq |-> liq, fgin |-> fg[tin], proto |-> 0,
                tk |-> ticks, hi |-> [i \in PosIds |-> 0], lo |-> [i \in PosIds |-> 0], n |-> [i \in PosIds |-> 0], steps |-> <<>>]
      s     == Loop(s0, exactIn, aToB, limit)
      used  == amt - s.rem
      ain   == IF exactIn THEN used ELSE s.calc
      aout  == IF exactIn THEN s.calc ELSE used
  IN /\ amt > 0
     /\ MinP <= limit /\ limit <= MaxP
     /\ IF aToB THEN limit < sp ELSE limit > sp
     /\ s.ok
     /\ ~(s.rem > 0 /\ ~exactIn /\ lim = 0)                  \* partial exact-out fill rejected
     /\ IF exactIn THEN aout >= threshold ELSE ain <= threshold
     /\ vault[tout] >= aout                                  \* the payout transfer succeeds
     /\ sp' = s.sp /\ tc' = s.tc /\ liq' = s.liq /\ ticks' = s.tk
     /\ fg' = [fg EXCEPT ![tin] = s.fgin]
     /\ po' = [po EXCEPT ![tin] = @ + s.proto]
     /\ vault' = [vault EXCEPT ![tin] = @ + ain, ![tout] = @ - aout]
     /\ gain' = [gain EXCEPT ![u][tin] = @ - ain, ![u][tout] = @ + aout]
     /\ shareHi' = [i \in PosIds |-> [shareHi[i] EXCEPT ![tin] = @ + s.hi[i]]]
     /\ shareLo' = [i \in PosIds |-> [shareLo[i] EXCEPT ![tin] = @ + s.lo[i]]]
     /\ nsteps' = [i \in PosIds |-> nsteps[i] + s.n[i]]
     /\ last' = [op |-> "swap", user |-> u, amt |-> amt, threshold |-> threshold, lim |-> lim, limit |-> limit,
                 exactIn |-> exactIn, aToB |-> aToB, ain |-> ain, aout |-> aout, steps |-> s.steps,
                 p0 |-> sp, proto |-> s.proto]
     /\ UNCHANGED <<pos, credited, lmax>>

-----------------------------------------------------------------------------
Next ==
  /\ ops < MaxOps          \* bounded exploration (the bound is a constant of the instance)
  /\ ops' = ops + 1
  /\ \/ \E i \in PosIds, u \in Users, r \in Ranges : Open(i, u, r)
     \/ \E i \in PosIds, u \in Users : Close(i, u)
     \/ \E i \in PosIds, u \in Users, d \in LiqUnits : Modify(i, u, d) \/ Modify(i, u, -d)
     \/ \E i \in PosIds, u \in Users : Modify(i, u, 0)
     \/ \E i \in PosIds, u \in Users : CollectFees(i, u)
     \/ \E u \in Traders, a \in Amounts, e \in BOOLEAN, d \in BOOLEAN, lm \in Limits, th \in Thresholds :
           Swap(u, a, IF th = -1 THEN (IF e THEN 0 ELSE 1000000) ELSE th, lm, e, d)
     \/ CollectProtocol
     \/ Forget

Spec == Init /\ [][Next]_vars
OpsBound == ops <= MaxOps

-----------------------------------------------------------------------------
(* ---------------------------------- properties ---------------------------------- *)
Opened == {i \in PosIds : pos[i].open}
Sum(S, f(_)) == LET RECURSIVE H(_) H(T) == IF T = {} THEN 0 ELSE LET x == CHOOSE y \in T : TRUE IN f(x) + H(T \ {x}) IN H(S)

(* C05 *)
LiqSum == liq = Sum({i \in Opened : pos[i].lo <= tc /\ tc < pos[i].up}, LAMBDA i : pos[i].L)
TickSums ==
  \A t \in Ticks :
    LET net   == Sum({i \in Opened : pos[i].lo = t}, LAMBDA i : pos[i].L) - Sum({i \in Opened : pos[i].up = t}, LAMBDA i : pos[i].L)
        gross == Sum({i \in Opened : pos[i].lo = t \/ pos[i].up = t}, LAMBDA i : pos[i].L)
    IN ticks[t].net = net /\ ticks[t].gross = gross /\ (ticks[t].init <=> gross > 0)

(* C01 *)
Pending(i, which) ==
  LET p == pos[i] IN Credit(p.L, WSub(Inside(p.lo, p.up, which), IF which = "a" THEN p.ca ELSE p.cb))
Claims(which) ==
  po[which] + Sum(Opened, LAMBDA i :
      (IF which = "a" THEN pos[i].owa ELSE pos[i].owb) + Pending(i, which)
        + Deltas(pos[i].lo, pos[i].up, pos[i].L, FALSE)[IF which = "a" THEN 1 ELSE 2])
Solvent == vault["a"] >= Claims("a") /\ vault["b"] >= Claims("b")

(* a party that only swaps back and forth - over a run of swaps during which no position's liquidity changes - never ends with more of
   one token and no less of the other (gain of a trader is reset by every liquidity change: NewSegment) *)
NoFreeLunch ==
  \A u \in Traders : ~(gain[u]["a"] >= 0 /\ gain[u]["b"] >= 0 /\ gain[u]["a"] + gain[u]["b"] > 0)

(* C07: credited fees never exceed the exact pro-rata share, and fall short by bounded rounding *)
FeeUpper ==
  \A i \in Opened : \A t \in Tok : credited[i][t] * Q <= shareHi[i][t]
Slack(i) == nsteps[i] * (BDiv(lmax[i], Q) + 2) + 2
FeeLower ==
  \A i \in Opened : \A t \in Tok :
     \* no dropped credit in the toy instance (products stay below the accumulator width)
     (credited[i][t] + Pending(i, t) + Slack(i)) * Q >= shareLo[i][t]

(* C03 / C06: contracts of the last swap *)
SwapBounds ==
  last.op = "swap" =>
    /\ last.exactIn => last.ain <= last.amt
    /\ ~last.exactIn => last.aout <= last.amt
    /\ IF last.aToB THEN sp <= last.p0 ELSE sp >= last.p0
    /\ MinP <= sp /\ sp <= MaxP
    /\ IF last.aToB THEN sp >= last.limit ELSE sp <= last.limit
    /\ (IF last.exactIn THEN last.ain ELSE last.aout) < last.amt => sp = last.limit
    /\ (~last.exactIn /\ last.lim = 0) => last.aout = last.amt
    /\ last.exactIn => last.aout >= last.threshold
    /\ ~last.exactIn => last.ain <= last.threshold

StepsOK ==
  last.op = "swap" =>
    \A k \in DOMAIN last.steps :
      LET s == last.steps[k] IN StepOK(s.x, s.r) /\ FeeOK(s.x, s.r) /\ s.cut = ProtoCut(s.r.fee, ProtoRate)

SplitExact ==
  last.op = "swap" =>
    LET S == last.steps
        sumIn  == Sum(DOMAIN S, LAMBDA k : S[k].r.in + S[k].r.fee)
        sumOut == Sum(DOMAIN S, LAMBDA k : S[k].r.out)
        sumCut == Sum(DOMAIN S, LAMBDA k : S[k].cut)
    IN last.ain = sumIn /\ last.aout = sumOut /\ last.proto = sumCut

(* C04 (model level): funds of a position move only on its owner's signature *)
OwnerSigned ==
  last.op \in {"increase", "decrease", "collect", "close"} =>
     (last.op = "close" \/ last.signer = pos[last.pos].owner)

(* C18 (model level): a closed position was empty *)
TypeOK ==
  /\ liq >= 0 /\ vault["a"] >= 0 /\ vault["b"] >= 0
  /\ \A i \in PosIds : pos[i].L >= 0

(* `last' is a history variable hidden from the fingerprint by the VIEW, so predicates over it are
   checked as action properties: TLC evaluates them on every transition, also those leading to a
   state it has already seen. *)
SwapBoundsProp  == [][SwapBounds']_vars
StepsOKProp     == [][StepsOK']_vars
SplitExactProp  == [][SplitExact']_vars
OwnerSignedProp == [][OwnerSigned']_vars
=============================================================================
