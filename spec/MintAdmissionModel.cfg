SPECIFICATION Spec
INVARIANT NeverNonTransferable
INVARIANT NeverUnknown
INVARIANT PlainAlwaysOk
INVARIANT BadgeNeverHurts
INVARIANT Emit
CHECK_DEADLOCK FALSE
