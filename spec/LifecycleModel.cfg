SPECIFICATION Spec
CONSTANT Depth = 10
INVARIANT TypeOK
INVARIANT Emit
PROPERTY LockedKeepsLiquidity
PROPERTY ClosedOnlyEmpty
PROPERTY OnlyLiquidLocks
CHECK_DEADLOCK FALSE
