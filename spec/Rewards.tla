------------------------------- MODULE Rewards -------------------------------
(* Reward emissions of a Whirlpool as a state machine (C11), at the same level of detail as the
   program: one reward, a clock, the global reward growth accumulator (wrapping), per-tick
   `outside' values, per-position checkpoints and amounts owed, the reward vault.

   Every operation that carries a timestamp first ACCRUES (WpMath!RewardGrowthDelta: floor(dt *
   emissions / liquidity); nothing at zero liquidity, dt = 0 or on overflow) and stamps the pool;
   it is refused when the clock is behind the stamp.  The price moves tick by tick (MoveUp /
   MoveDown stand for the swap loop's crossings: the outside value of a crossed tick is flipped,
   the net liquidity applied); liquidity changes update ticks and checkpoints as in Whirlpool.tla.

   Ghost variables (hidden by the VIEW): for every position the exact pro-rata share of what was
   emitted while it was in range, as a Q^2-scaled interval [shareLo, shareHi], what the program
   credited, the number of roundings; `emitted' = sum of dt * emissions over intervals with
   in-range liquidity.

   The arithmetic (GrowthInside, Credit, RewardGrowthDelta) is WpMath's, shared with the trace
   specification that validates recorded executions of the real program.                      *)
EXTENDS WpMath, Integers, FiniteSets, TLC

CONSTANTS MinTick, MaxTick, PosIds, Ranges, LiqUnits, Dts, Emissions, StartGrowth, Day, MaxOps

Ticks == MinTick..MaxTick

VARIABLES
  tc, liq,                  \* current tick, in-range liquidity
  g, ts, em,                \* reward growth global (wrapping), last update time, emissions per second (Q-scaled)
  now,                      \* the clock (may be set back: operations are then refused)
  ticks,                    \* tick -> [init, net, gross, ro]
  pos,                      \* id -> [open, lo, up, L, cp, owed]
  vault, paid,              \* reward vault balance; id -> rewards paid out so far
  \* ghosts
  shareHi, shareLo, credited, nround, lmax, emitted, last, ops

vars == <<tc, liq, g, ts, em, now, ticks, pos, vault, paid, shareHi, shareLo, credited, nround, lmax, emitted, last, ops>>
view == <<tc, liq, g, ts, em, now, ticks, pos, vault, paid, shareHi, shareLo, credited, nround, lmax, emitted, ops>>

ZeroTick == [init |-> FALSE, net |-> 0, gross |-> 0, ro |-> 0]
ZeroPos  == [open |-> FALSE, lo |-> 0, up |-> 0, L |-> 0, cp |-> 0, owed |-> 0]

Init ==
  /\ tc = 0 /\ liq = 0 /\ g \in StartGrowth /\ ts = 0 /\ em \in Emissions /\ now = 0
  /\ ticks = [t \in Ticks |-> ZeroTick]
  /\ pos = [i \in PosIds |-> ZeroPos]
  /\ vault = Day * 64 /\ paid = [i \in PosIds |-> 0]
  /\ shareHi = [i \in PosIds |-> 0] /\ shareLo = [i \in PosIds |-> 0] /\ credited = [i \in PosIds |-> 0]
  /\ nround = [i \in PosIds |-> 0] /\ lmax = [i \in PosIds |-> 0] /\ emitted = 0
  /\ last = [op |-> "init"] /\ ops = 0

-----------------------------------------------------------------------------
InRange(x) == x.open /\ x.L > 0 /\ x.lo <= tc /\ tc < x.up
Dt == now - ts
GAfter == WAdd(g, RewardGrowthDelta(Dt, em, liq))          \* global growth after accrual

(* accrual: pool part + ghost shares of the positions in range over [ts, now] *)
Accrue ==
  /\ now >= ts                                              \* otherwise the operation fails
  /\ ts' = now
  /\ g' = GAfter
  /\ LET acc == RewardAccrues(Dt, em, liq) IN
     /\ emitted' = IF acc THEN emitted + Dt * em ELSE emitted
     /\ shareHi' = [i \in PosIds |-> IF acc /\ InRange(pos[i]) THEN shareHi[i] + CeilDiv(Dt * em * pos[i].L * Q, liq) ELSE shareHi[i]]
     /\ shareLo' = [i \in PosIds |-> IF acc /\ InRange(pos[i]) THEN shareLo[i] + BDiv(Dt * em * pos[i].L * Q, liq) ELSE shareLo[i]]

\* every accrual floors the growth once: one more rounding for each position in range
NAcc == [i \in PosIds |-> IF RewardAccrues(Dt, em, liq) /\ InRange(pos[i]) THEN nround[i] + 1 ELSE nround[i]]

InsideWith(tk, gg, x) == GrowthInside(tc, x.lo, x.up, gg, tk[x.lo].init, tk[x.lo].ro, tk[x.up].init, tk[x.up].ro)

TickMod(t, d, isUpper, gg) ==
  LET tk == ticks[t] gr == tk.gross + d IN
  IF gr = 0 THEN ZeroTick
  ELSE [init |-> TRUE, net |-> IF isUpper THEN tk.net - d ELSE tk.net + d, gross |-> gr,
        ro |-> IF tk.gross = 0 THEN (IF tc >= t THEN gg ELSE 0) ELSE tk.ro]

(* position update (increase / decrease / update_fees_and_rewards): accrue, settle, re-checkpoint *)
Modify(i, d) ==
  LET x      == pos[i]
      inside == InsideWith(ticks, GAfter, x)                \* as the program: ticks before the update, growth after accrual
      delta  == WSub(inside, x.cp)
      cr     == Credit(x.L, delta)
      tk1    == [ticks EXCEPT ![x.lo] = TickMod(x.lo, d, FALSE, GAfter), ![x.up] = TickMod(x.up, d, TRUE, GAfter)]
  IN /\ x.open /\ x.L + d >= 0 /\ ~(d = 0 /\ x.L = 0)
     /\ Accrue
     /\ ticks' = tk1
     /\ pos' = [pos EXCEPT ![i] = [x EXCEPT !.L = x.L + d, !.cp = InsideWith(tk1, GAfter, x), !.owed = Wrap(x.owed + cr, AmtBits)]]
     /\ liq' = IF x.lo <= tc /\ tc < x.up THEN liq + d ELSE liq
     /\ credited' = [credited EXCEPT ![i] = @ + cr]
     /\ nround' = [NAcc EXCEPT ![i] = @ + 1]
     /\ lmax' = [lmax EXCEPT ![i] = IF x.L + d > @ THEN x.L + d ELSE @]
     /\ last' = [op |-> "modify", pos |-> i, d |-> d, dropped |-> (x.L * delta >= WrapMod)]
     /\ UNCHANGED <<tc, em, now, vault, paid>>

Open(i, r) ==
  /\ ~pos[i].open
  /\ pos' = [pos EXCEPT ![i] = [ZeroPos EXCEPT !.open = TRUE, !.lo = r[1], !.up = r[2]]]
  /\ shareHi' = [shareHi EXCEPT ![i] = 0] /\ shareLo' = [shareLo EXCEPT ![i] = 0]
  /\ credited' = [credited EXCEPT ![i] = 0] /\ nround' = [nround EXCEPT ![i] = 0] /\ lmax' = [lmax EXCEPT ![i] = 0]
  /\ last' = [op |-> "open", pos |-> i]
  /\ UNCHANGED <<tc, liq, g, ts, em, now, ticks, vault, paid, emitted>>

(* the swap loop's crossings, one tick at a time (a swap accrues once, at its start) *)
MoveUp ==      \* b -> a: crossing tick tc + 1 leaves the current tick on it
  /\ tc < MaxTick
  /\ Accrue
  /\ LET t == tc + 1 IN
     /\ tc' = t
     /\ ticks' = IF ticks[t].init THEN [ticks EXCEPT ![t].ro = WSub(GAfter, @)] ELSE ticks
     /\ liq' = IF ticks[t].init THEN liq + ticks[t].net ELSE liq
  /\ last' = [op |-> "move"]
  /\ nround' = NAcc
  /\ UNCHANGED <<em, now, pos, vault, paid, credited, lmax>>
MoveDown ==    \* a -> b: crossing tick tc leaves the current tick below it
  /\ tc > MinTick
  /\ Accrue
  /\ LET t == tc IN
     /\ tc' = t - 1
     /\ ticks' = IF ticks[t].init THEN [ticks EXCEPT ![t].ro = WSub(GAfter, @)] ELSE ticks
     /\ liq' = IF ticks[t].init THEN liq - ticks[t].net ELSE liq
  /\ last' = [op |-> "move"]
  /\ nround' = NAcc
  /\ UNCHANGED <<em, now, pos, vault, paid, credited, lmax>>

SetEmissions(e) ==
  /\ Accrue                                               \* settle at the old rate first
  /\ BDiv(Day * e, Q) <= vault                            \* a day of emissions must be funded
  /\ em' = e
  /\ last' = [op |-> "set_emissions", old |-> em]
  /\ nround' = NAcc
  /\ UNCHANGED <<tc, liq, now, ticks, pos, vault, paid, credited, lmax>>

Fund(v) ==
  /\ vault' = vault + v
  /\ last' = [op |-> "fund"]
  /\ UNCHANGED <<tc, liq, g, ts, em, now, ticks, pos, paid, shareHi, shareLo, credited, nround, lmax, emitted>>

Collect(i) ==
  LET amt == IF pos[i].owed <= vault THEN pos[i].owed ELSE vault IN
  /\ pos[i].open
  /\ pos' = [pos EXCEPT ![i].owed = @ - amt]
  /\ vault' = vault - amt
  /\ paid' = [paid EXCEPT ![i] = @ + amt]
  /\ last' = [op |-> "collect", amt |-> amt]
  /\ UNCHANGED <<tc, liq, g, ts, em, now, ticks, shareHi, shareLo, credited, nround, lmax, emitted>>

Tick(dt) ==
  /\ now' = now + dt
  /\ last' = [op |-> "tick"]
  /\ UNCHANGED <<tc, liq, g, ts, em, ticks, pos, vault, paid, shareHi, shareLo, credited, nround, lmax, emitted>>
Rewind ==       \* a clock behind the stamp: every accruing operation is then disabled (fails)
  /\ now > 0 /\ now' = now - 1
  /\ last' = [op |-> "rewind"]
  /\ UNCHANGED <<tc, liq, g, ts, em, ticks, pos, vault, paid, shareHi, shareLo, credited, nround, lmax, emitted>>

Next ==
  /\ ops < MaxOps
  /\ ops' = ops + 1
  /\ \/ \E i \in PosIds, r \in Ranges : Open(i, r)
     \/ \E i \in PosIds, d \in LiqUnits \cup {0} : Modify(i, d) \/ Modify(i, 0 - d)
     \/ MoveUp \/ MoveDown
     \/ \E e \in Emissions : SetEmissions(e)
     \/ \E v \in {Day * 64} : Fund(v)
     \/ \E i \in PosIds : Collect(i)
     \/ \E dt \in Dts : Tick(dt)
     \/ Rewind

Spec == Init /\ [][Next]_vars

-----------------------------------------------------------------------------
(* Properties *)
PendingOf(i) == IF pos[i].open THEN Credit(pos[i].L, WSub(InsideWith(ticks, g, pos[i]), pos[i].cp)) ELSE 0
Slack(i) == nround[i] * (lmax[i] \div Q + 2) + 2

\* the reward credited to a position never exceeds its exact pro-rata share ...
RewardUpper == \A i \in PosIds : credited[i] * Q * Q <= shareHi[i]
\* ... and, with what is still pending, falls short of it only by bounded rounding (unless a credit was dropped on overflow)
RewardLower == \A i \in PosIds : pos[i].open => shareLo[i] <= (credited[i] + PendingOf(i) + Slack(i)) * Q * Q
\* all positions together are never credited more than was emitted
NoInflation == LET S[T \in SUBSET PosIds] == IF T = {} THEN 0 ELSE LET i == CHOOSE i \in T : TRUE IN credited[i] + S[T \ {i}]
               IN S[PosIds] * Q <= emitted
\* what was paid out came from the vault and was owed
PaidWasCredited == \A i \in PosIds : paid[i] <= credited[i]
\* liquidity bookkeeping of the toy pool (as C05)
LiqSum == liq = LET S[T \in SUBSET PosIds] == IF T = {} THEN 0 ELSE LET i == CHOOSE i \in T : TRUE IN (IF InRange(pos[i]) THEN pos[i].L ELSE 0) + S[T \ {i}]
                IN S[PosIds]
\* action properties: nothing accrues at zero liquidity; the stamp never goes back
ZeroLiquidityNoAccrualProp == [][liq = 0 => g' = g]_vars
StampMonotoneProp == [][ts' >= ts]_vars
CollectPaysMinProp == [][last'.op = "collect" => last'.amt <= vault]_vars
=============================================================================
