----------------------------- MODULE MC_Rerange -----------------------------
(* The toy-scale pool of MC_Whirlpool with the two re-ranging instructions added:

     reset_position_range       an EMPTY position (no liquidity, nothing owed) is given another range; its growth
                                checkpoints restart from zero
     reposition_liquidity_v2    as the program does it, in one instruction: (1) all liquidity is taken out of the old
                                range - the fees earned there are settled into the position's owed amounts, which are
                                KEPT -, (2) the range is replaced and the checkpoints reset, (3) the requested liquidity
                                is put into the new range (checkpoints := growth inside the new range), (4) only the
                                difference between what step 1 frees (rounded down) and what step 3 needs (rounded up)
                                moves between the owner and the vault, per token, in either direction.

   Old and new range may overlap or share a bound, so a tick can be de-initialized by step 1 and re-initialized by
   step 3 (with outside values recomputed from the current globals).  TLC explores every interleaving of these two
   with opens, deposits, withdrawals, swaps (crossing ticks), collects - the invariants of Whirlpool (C01 Solvent,
   C05 LiqSum / TickSums, C07 fee ledgers) must survive them.  The fee ledgers of a position run on across a re-range:
   what a position is credited over its whole life never exceeds its exact pro-rata share over all the ranges it had. *)
EXTENDS MC_Whirlpool

TickModOf(tks, t, d, isUpper) ==
  LET tk == tks[t]
      g  == tk.gross + d
  IN IF g = 0 THEN ZeroTick
     ELSE [init |-> TRUE, net |-> IF isUpper THEN tk.net - d ELSE tk.net + d, gross |-> g,
           oa |-> IF tk.gross = 0 THEN (IF tc >= t THEN fg["a"] ELSE 0) ELSE tk.oa,
           ob |-> IF tk.gross = 0 THEN (IF tc >= t THEN fg["b"] ELSE 0) ELSE tk.ob]

ResetRange(i, signer, r) ==
  LET p == pos[i] IN
  /\ p.open /\ signer = p.owner
  /\ p.L = 0 /\ p.owa = 0 /\ p.owb = 0
  /\ r[1] < r[2] /\ r # <<p.lo, p.up>>
  /\ pos' = [pos EXCEPT ![i] = [p EXCEPT !.lo = r[1], !.up = r[2], !.ca = 0, !.cb = 0]]
  /\ last' = [op |-> "reset_range", pos |-> i, signer |-> signer]
  /\ UNCHANGED <<sp, tc, liq, fg, po, ticks, vault, gain, shareHi, shareLo, credited, nsteps, lmax>>

Reposition(i, signer, r, L2) ==
  LET p    == pos[i]
      u    == p.owner
      has  == p.L > 0
      \* (1) everything out of the old range (skipped for a position without liquidity)
      s1   == Settled(i, 0 - p.L)
      out  == IF has THEN Deltas(p.lo, p.up, p.L, FALSE) ELSE <<0, 0>>
      tk1  == IF has THEN [ticks EXCEPT ![p.lo] = TickModOf(ticks, p.lo, 0 - p.L, FALSE), ![p.up] = TickModOf(ticks, p.up, 0 - p.L, TRUE)] ELSE ticks
      liq1 == IF has /\ p.lo <= tc /\ tc < p.up THEN liq - p.L ELSE liq
      p1   == IF has THEN s1.np ELSE p
      \* (2) the new range, checkpoints reset, owed amounts kept; (3) the new liquidity
      ia   == InsideOf(tk1, fg, tc, r[1], r[2], "a")
      ib   == InsideOf(tk1, fg, tc, r[1], r[2], "b")
      p3   == [p1 EXCEPT !.lo = r[1], !.up = r[2], !.L = L2, !.ca = ia, !.cb = ib]
      tk2  == [tk1 EXCEPT ![r[1]] = TickModOf(tk1, r[1], L2, FALSE), ![r[2]] = TickModOf(tk1, r[2], L2, TRUE)]
      liq2 == IF r[1] <= tc /\ tc < r[2] THEN liq1 + L2 ELSE liq1
      inn  == TokenDeltas(tc, sp, r[1], r[2], P(r[1]), P(r[2]), L2, TRUE)
      \* (4) net transfer per token: positive = the owner pays
      netA == inn[1] - out[1]
      netB == inn[2] - out[2]
  IN /\ p.open /\ signer = p.owner
     /\ r[1] < r[2] /\ r # <<p.lo, p.up>> /\ L2 > 0
     /\ vault["a"] + netA >= 0 /\ vault["b"] + netB >= 0          \* a net payout succeeds
     /\ pos' = [pos EXCEPT ![i] = p3]
     /\ ticks' = tk2
     /\ liq' = liq2
     /\ vault' = [vault EXCEPT !["a"] = @ + netA, !["b"] = @ + netB]
     /\ gain' = [NewSegment EXCEPT ![u]["a"] = @ - netA, ![u]["b"] = @ - netB]
     /\ credited' = IF has THEN [credited EXCEPT ![i]["a"] = @ + s1.da, ![i]["b"] = @ + s1.db] ELSE credited
     /\ nsteps' = [nsteps EXCEPT ![i] = @ + 2]
     /\ lmax' = [lmax EXCEPT ![i] = IF L2 > @ THEN L2 ELSE @]
     /\ last' = [op |-> "reposition", pos |-> i, signer |-> signer, out |-> out, inn |-> inn, owedBefore |-> <<p.owa, p.owb>>,
                 settled |-> IF has THEN <<s1.da, s1.db>> ELSE <<0, 0>>, old |-> <<p.lo, p.up>>]
     /\ UNCHANGED <<sp, tc, fg, po, shareHi, shareLo>>

RerangeStep ==
  /\ ops < MaxOps
  /\ ops' = ops + 1
  /\ \/ \E i \in PosIds, u \in Users, r \in Ranges : ResetRange(i, u, r)
     \/ \E i \in PosIds, u \in Users, r \in Ranges, d \in LiqUnits : Reposition(i, u, r, d)

NextR == Next \/ RerangeStep
SpecR == Init /\ [][NextR]_vars

(* what a re-range must not lose: the owed fees of the position are the old ones plus what the old range had earned *)
RerangeKeepsOwed ==
  last.op = "reposition" =>
    /\ pos[last.pos].owa = WrapAmt(last.owedBefore[1] + last.settled[1])
    /\ pos[last.pos].owb = WrapAmt(last.owedBefore[2] + last.settled[2])
RerangeKeepsOwedProp == [][RerangeKeepsOwed']_vars

(* vacuity guard: both re-ranging actions are taken, a re-range shares a bound with the old range, one moves the
   position into / out of the current price *)
CovInitR == Init /\ \A i \in 10..30 : TLCSet(i, FALSE)
CovSpecR == CovInitR /\ [][NextR]_vars
TallyR ==
  /\ (last.op = "reset_range") => TLCSet(25, TRUE)
  /\ (last.op = "reposition") => TLCSet(26, TRUE)
  /\ (last.op = "reposition" /\ {last.old[1], last.old[2]} \cap {pos[last.pos].lo, pos[last.pos].up} # {}) => TLCSet(27, TRUE)
  /\ (last.op = "reposition" /\ (last.old[1] <= tc /\ tc < last.old[2]) # (pos[last.pos].lo <= tc /\ tc < pos[last.pos].up)) => TLCSet(28, TRUE)
  /\ (last.op = "reposition" /\ (last.settled[1] > 0 \/ last.settled[2] > 0)) => TLCSet(29, TRUE)     \* fees of the old range settled on the way out
  /\ (last.op = "reposition" /\ (last.inn[1] < last.out[1] \/ last.inn[2] < last.out[2])) => TLCSet(30, TRUE)  \* a net payout
CovROK == \A i \in 25..30 : TLCGet(i) \/ (PrintT(<<"never taken", i>>) /\ FALSE)
=============================================================================
