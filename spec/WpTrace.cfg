SPECIFICATION Spec
CONSTANTS
  QBits = 64
  WrapBits = 128
  AmtBits = 64
  FeeDen = 1000000
  ProtoDen = 10000
  Active = {"C01", "C03", "C05", "C06", "C08", "ANY"}
POSTCONDITION Accepted
CHECK_DEADLOCK FALSE
