---------------------------- MODULE MC_Rewards ----------------------------
(* toy-scale instance of Rewards: Q = 2^4, accumulators wrap at 2^12 and start just below the wrap *)
EXTENDS Rewards
MCMinTick == -1
MCRanges == {<<-1, 1>>, <<0, 2>>, <<-1, 0>>, <<0, 1>>}
MCStartGrowth == {0, 4090}
(* vacuity guard *)
CovInit == Init /\ \A i \in 10..19 : TLCSet(i, FALSE)
CovSpec == CovInit /\ [][Next]_vars
OpIx == [init |-> 10, open |-> 11, modify |-> 12, move |-> 13, set_emissions |-> 14, fund |-> 15, collect |-> 16, tick |-> 17, rewind |-> 18]
Tally == /\ TLCSet(OpIx[last.op], TRUE)
         /\ (\E i \in PosIds : credited[i] > 0) => TLCSet(19, TRUE)
CovOK == \A i \in 11..19 : TLCGet(i)
=============================================================================
