---------------------------- MODULE MC_SwapStep ----------------------------
(* C02 (M): the canonical swap step of WpMath (what the program computes) satisfies the step
   contract StepOK and the fee contract FeeOK for EVERY input tuple of a toy domain
   (fixed-point one = 2^6).  Each input tuple is one initial state; the contract is the invariant. *)
EXTENDS WpMath, TLC, Sequences

CONSTANTS PMin, PMax, PStep, LMax, LStep, AMax, AStep, Rates

Prices == {p \in PMin..PMax : (p - PMin) % PStep = 0} \cup {PMin, PMin + 1, PMax - 1, PMax, 64, 65}
Ls     == {n \in 0..LMax : n % LStep = 0} \cup {1, 2, 63, 64, 65}
Amts   == {a \in 0..AMax : a % AStep = 0} \cup {1, 2, 3}

VARIABLE x
Init == /\ x \in [rem : Amts, rate : Rates, L : Ls, pc : Prices, pt : Prices, exactIn : BOOLEAN, aToB : BOOLEAN]
        /\ IF x.aToB THEN x.pt <= x.pc ELSE x.pc <= x.pt
Next == UNCHANGED x
Spec == Init /\ [][Next]_x

R == Step(x, PMin, PMax)
ContractHolds == R.ok => (StepOK(x, R) /\ FeeOK(x, R))
(* the canonical step never takes more than the budget and never pays more than requested *)
Sane == R.ok => /\ R.in >= 0 /\ R.out >= 0 /\ R.fee >= 0
               /\ (x.exactIn => R.in + R.fee <= x.rem)
               /\ (~x.exactIn => R.out <= x.rem)
=============================================================================
