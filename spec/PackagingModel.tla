--------------------------- MODULE PackagingModel ---------------------------
(* C10 (G): layouts of initialized ticks over the (up to three) tick arrays a swap uses.
   Candidate places are boundary-representative slots {first, second, last-but-one, last} of the
   array holding the current price and of the next two arrays in trade direction; a layout is any
   set of at most four of the twelve places, a trade direction, and how the start price sits
   relative to its tick (exactly on it, inside it, or in the shifted state left by a downward
   crossing).  TLC enumerates all layouts (each is one initial state) and prints them; the harness
   builds each world and runs the same swap under every packaging of the tick-array accounts.   *)
EXTENDS Integers, Sequences, FiniteSets, TLC, Json
Places == 1..12                      \* place = 4 * array + slotClass, slotClass 1..4 = slots 0, 1, 86, 87
VARIABLE lay
Init == lay \in [ticks : {S \in SUBSET Places : Cardinality(S) <= 4}, aToB : BOOLEAN, start : {"on", "off", "shifted"}]
Next == UNCHANGED lay
Spec == Init /\ [][Next]_lay
SetToSeq(S) == LET RECURSIVE F(_) F(T) == IF T = {} THEN <<>> ELSE LET m == CHOOSE x \in T : \A y \in T : x <= y IN <<m>> \o F(T \ {m}) IN F(S)
Emit == PrintT("REPLAY " \o ToJson([ticks |-> SetToSeq(lay.ticks), aToB |-> lay.aToB, start |-> lay.start]))
=============================================================================
