------------------------------- MODULE WpIface -------------------------------
(* The account interface of the instructions: for each instruction, the relation every account
   slot must satisfy with respect to the pool / position / config it names (C15), and the
   authority whose signature it needs (C04).  A successful instruction implies its guard:
   Guard(s, e) is evaluated on the abstract pre-state s and the recorded event e, whose `slots'
   field gives, for every slot, the abstract identity of the supplied account and its signer flag.
   The guards say what must hold; substitutions that satisfy them are harmless and may succeed. *)
EXTENDS BigInt, Integers, Sequences, FiniteSets

Id(e, slot) == e.slots[slot].id
Signed(e, slot) == e.slots[slot].s
HasSlot(e, slot) == slot \in DOMAIN e.slots

IsPool(s, id) == id \in DOMAIN s.pool
IsPos(s, id)  == id \in DOMAIN s.pos
IsTok(s, id)  == id \in DOMAIN s.tok
IsMint(s, id) == id \in DOMAIN s.mint
TokOfMint(s, id, m) == IsTok(s, id) /\ s.tok[id].mint = m
ProgOfMint(s, m) == IF s.mint[m].prog = "spl" THEN "prog:token" ELSE "prog:token2022"

(* a signer that the token program accepts for moving tokens out of account `acct' *)
TokenSigner(s, e, acct, authSlot) ==
  /\ IsTok(s, acct) /\ Signed(e, authSlot)
  /\ \/ s.tok[acct].owner = Id(e, authSlot)
     \/ (s.tok[acct].delegate = Id(e, authSlot) /\ ~(s.tok[acct].delegated \doteq 0))

(* position authority: the account holds exactly one token of the position's mint, and the signer is
   its owner, or its delegate with a delegated amount of exactly one *)
PosAuth(s, e, taSlot, authSlot, mint) ==
  LET ta == Id(e, taSlot) a == Id(e, authSlot) IN
  /\ IsTok(s, ta) /\ s.tok[ta].mint = mint /\ s.tok[ta].amount \doteq 1
  /\ Signed(e, authSlot)
  /\ IF s.tok[ta].delegate = a THEN s.tok[ta].delegated \doteq 1 ELSE s.tok[ta].owner = a

(* tick array slots of liquidity instructions: an initialized array of this pool *)
ArrayOf(s, id, p) == id \in DOMAIN s.ta /\ s.ta[id].pool = p
(* tick array slots of swaps: never an array of another pool (uninitialized / unrelated accounts are
   ignored by the sparse-swap builder) *)
NotForeignArray(s, id, p) == id \in DOMAIN s.ta => s.ta[id].pool = p

Vaults(s, e, p, sa, sb) == Id(e, sa) = s.pool[p].vaultA /\ Id(e, sb) = s.pool[p].vaultB
UserAccts(s, e, p, sa, sb) == TokOfMint(s, Id(e, sa), s.pool[p].mintA) /\ TokOfMint(s, Id(e, sb), s.pool[p].mintB)
V2Mints(s, e, p) ==
  /\ Id(e, "token_mint_a") = s.pool[p].mintA /\ Id(e, "token_mint_b") = s.pool[p].mintB
  /\ Id(e, "token_program_a") = ProgOfMint(s, s.pool[p].mintA) /\ Id(e, "token_program_b") = ProgOfMint(s, s.pool[p].mintB)
  /\ Id(e, "memo_program") = "prog:memo"

PositionOfPool(s, e, p) == IsPos(s, Id(e, "position")) /\ s.pos[Id(e, "position")].pool = p

ModifyGuard(s, e, v2) ==
  LET p == Id(e, "whirlpool") IN
  /\ IsPool(s, p) /\ PositionOfPool(s, e, p)
  /\ PosAuth(s, e, "position_token_account", "position_authority", s.pos[Id(e, "position")].mint)
  /\ Vaults(s, e, p, "token_vault_a", "token_vault_b")
  /\ UserAccts(s, e, p, "token_owner_account_a", "token_owner_account_b")
  /\ IF v2 THEN V2Mints(s, e, p) ELSE Id(e, "token_program") = "prog:token"

(* ... and the array is the one that HOLDS the tick: its 88 slots of `spacing' ticks from its start index contain it *)
Holds(s, id, p, t) == s.ta[id].start <= t /\ t < s.ta[id].start + 88 * s.pool[p].spacing

LiquidityGuard(s, e, v2) ==
  LET p == Id(e, "whirlpool") x == s.pos[Id(e, "position")] IN
  /\ ModifyGuard(s, e, v2)
  /\ ArrayOf(s, Id(e, "tick_array_lower"), p) /\ ArrayOf(s, Id(e, "tick_array_upper"), p)
  /\ Holds(s, Id(e, "tick_array_lower"), p, x.lo) /\ Holds(s, Id(e, "tick_array_upper"), p, x.up)

RepositionGuard(s, e) ==
  LET p == Id(e, "whirlpool") x == s.pos[Id(e, "position")] IN
  /\ ModifyGuard(s, e, TRUE)
  /\ \A sl \in {"new_tick_array_lower", "new_tick_array_upper"} : ArrayOf(s, Id(e, sl), p)
  /\ Holds(s, Id(e, "new_tick_array_lower"), p, e.args.newLo) /\ Holds(s, Id(e, "new_tick_array_upper"), p, e.args.newUp)
  \* (the arrays of the old range are used only when liquidity is withdrawn from it; for a position without liquidity see
  \* the recorded predicate unused_old_range_arrays_belong of WpTrace)
  /\ (x.liq \doteq 0) \/ (/\ ArrayOf(s, Id(e, "existing_tick_array_lower"), p) /\ ArrayOf(s, Id(e, "existing_tick_array_upper"), p)
                           /\ Holds(s, Id(e, "existing_tick_array_lower"), p, x.lo) /\ Holds(s, Id(e, "existing_tick_array_upper"), p, x.up))
  /\ Id(e, "system_program") = "prog:system"

CollectFeesGuard(s, e, v2) == ModifyGuard(s, e, v2)

CollectRewardGuard(s, e, v2) ==
  LET p == Id(e, "whirlpool") i == e.args.index + 1 IN
  /\ IsPool(s, p) /\ PositionOfPool(s, e, p)
  /\ PosAuth(s, e, "position_token_account", "position_authority", s.pos[Id(e, "position")].mint)
  /\ i \in 1..3 /\ s.pool[p].rewards[i].init
  /\ Id(e, "reward_vault") = s.pool[p].rewards[i].vault
  /\ TokOfMint(s, Id(e, "reward_owner_account"), s.pool[p].rewards[i].mint)
  /\ IF v2 THEN /\ Id(e, "reward_mint") = s.pool[p].rewards[i].mint
                /\ Id(e, "reward_token_program") = ProgOfMint(s, s.pool[p].rewards[i].mint)
                /\ Id(e, "memo_program") = "prog:memo"
     ELSE Id(e, "token_program") = "prog:token"

UpdateFeesGuard(s, e) ==
  LET p == Id(e, "whirlpool") IN
  /\ IsPool(s, p) /\ PositionOfPool(s, e, p)
  /\ ArrayOf(s, Id(e, "tick_array_lower"), p) /\ ArrayOf(s, Id(e, "tick_array_upper"), p)
  /\ Holds(s, Id(e, "tick_array_lower"), p, s.pos[Id(e, "position")].lo) /\ Holds(s, Id(e, "tick_array_upper"), p, s.pos[Id(e, "position")].up)

SwapGuard(s, e, v2) ==
  LET p == Id(e, "whirlpool")
      inAcct == IF e.args.aToB THEN Id(e, "token_owner_account_a") ELSE Id(e, "token_owner_account_b")
  IN /\ IsPool(s, p)
     /\ Vaults(s, e, p, "token_vault_a", "token_vault_b")
     /\ UserAccts(s, e, p, "token_owner_account_a", "token_owner_account_b")
     /\ \A sl \in {"tick_array_0", "tick_array_1", "tick_array_2"} : NotForeignArray(s, Id(e, sl), p)
     /\ Id(e, "oracle") = s.pool[p].oracleId
     /\ TokenSigner(s, e, inAcct, "token_authority")
     /\ IF v2 THEN V2Mints(s, e, p) ELSE Id(e, "token_program") = "prog:token"

TwoHopGuard(s, e) ==
  LET p1 == Id(e, "whirlpool_one") p2 == Id(e, "whirlpool_two") IN
  /\ IsPool(s, p1) /\ IsPool(s, p2) /\ p1 # p2
  /\ (IF e.args.aToB1 THEN s.pool[p1].mintB ELSE s.pool[p1].mintA) = (IF e.args.aToB2 THEN s.pool[p2].mintA ELSE s.pool[p2].mintB)
  /\ Vaults(s, e, p1, "token_vault_one_a", "token_vault_one_b") /\ Vaults(s, e, p2, "token_vault_two_a", "token_vault_two_b")
  /\ UserAccts(s, e, p1, "token_owner_account_one_a", "token_owner_account_one_b")
  /\ UserAccts(s, e, p2, "token_owner_account_two_a", "token_owner_account_two_b")
  /\ \A sl \in {"tick_array_one_0", "tick_array_one_1", "tick_array_one_2"} : NotForeignArray(s, Id(e, sl), p1)
  /\ \A sl \in {"tick_array_two_0", "tick_array_two_1", "tick_array_two_2"} : NotForeignArray(s, Id(e, sl), p2)
  /\ Id(e, "oracle_one") = s.pool[p1].oracleId /\ Id(e, "oracle_two") = s.pool[p2].oracleId
  /\ Id(e, "token_program") = "prog:token"
  /\ TokenSigner(s, e, IF e.args.aToB1 THEN Id(e, "token_owner_account_one_a") ELSE Id(e, "token_owner_account_one_b"), "token_authority")

TwoHopV2Guard(s, e) ==
  LET p1 == Id(e, "whirlpool_one") p2 == Id(e, "whirlpool_two")
      mIn  == IF e.args.aToB1 THEN s.pool[p1].mintA ELSE s.pool[p1].mintB
      mMid == IF e.args.aToB1 THEN s.pool[p1].mintB ELSE s.pool[p1].mintA
      mOut == IF e.args.aToB2 THEN s.pool[p2].mintB ELSE s.pool[p2].mintA
  IN /\ IsPool(s, p1) /\ IsPool(s, p2) /\ p1 # p2
     /\ mMid = (IF e.args.aToB2 THEN s.pool[p2].mintA ELSE s.pool[p2].mintB)
     /\ Id(e, "token_mint_input") = mIn /\ Id(e, "token_mint_intermediate") = mMid /\ Id(e, "token_mint_output") = mOut
     /\ Id(e, "token_program_input") = ProgOfMint(s, mIn) /\ Id(e, "token_program_intermediate") = ProgOfMint(s, mMid)
     /\ Id(e, "token_program_output") = ProgOfMint(s, mOut)
     /\ Id(e, "token_vault_one_input") = (IF e.args.aToB1 THEN s.pool[p1].vaultA ELSE s.pool[p1].vaultB)
     /\ Id(e, "token_vault_one_intermediate") = (IF e.args.aToB1 THEN s.pool[p1].vaultB ELSE s.pool[p1].vaultA)
     /\ Id(e, "token_vault_two_intermediate") = (IF e.args.aToB2 THEN s.pool[p2].vaultA ELSE s.pool[p2].vaultB)
     /\ Id(e, "token_vault_two_output") = (IF e.args.aToB2 THEN s.pool[p2].vaultB ELSE s.pool[p2].vaultA)
     /\ TokOfMint(s, Id(e, "token_owner_account_input"), mIn) /\ TokOfMint(s, Id(e, "token_owner_account_output"), mOut)
     /\ \A sl \in {"tick_array_one_0", "tick_array_one_1", "tick_array_one_2"} : NotForeignArray(s, Id(e, sl), p1)
     /\ \A sl \in {"tick_array_two_0", "tick_array_two_1", "tick_array_two_2"} : NotForeignArray(s, Id(e, sl), p2)
     /\ Id(e, "oracle_one") = s.pool[p1].oracleId /\ Id(e, "oracle_two") = s.pool[p2].oracleId
     /\ Id(e, "memo_program") = "prog:memo"
     /\ TokenSigner(s, e, Id(e, "token_owner_account_input"), "token_authority")

(* authority recorded on chain for a setting *)
CfgOfPool(s, p) == s.pool[p].cfg
AuthIs(e, slot, who) == Id(e, slot) = who /\ Signed(e, slot)

CollectProtocolGuard(s, e, v2) ==
  LET p == Id(e, "whirlpool") c == Id(e, "whirlpools_config") IN
  /\ IsPool(s, p) /\ c \in DOMAIN s.cfg /\ s.pool[p].cfg = c
  /\ AuthIs(e, "collect_protocol_fees_authority", s.cfg[c].collectAuth)
  /\ Vaults(s, e, p, "token_vault_a", "token_vault_b")
  /\ UserAccts(s, e, p, "token_destination_a", "token_destination_b")
  /\ IF v2 THEN V2Mints(s, e, p) ELSE Id(e, "token_program") = "prog:token"

PoolSetterGuard(s, e) ==      \* set_fee_rate, set_protocol_fee_rate
  LET p == Id(e, "whirlpool") c == Id(e, "whirlpools_config") IN
  /\ IsPool(s, p) /\ c \in DOMAIN s.cfg /\ s.pool[p].cfg = c /\ AuthIs(e, "fee_authority", s.cfg[c].feeAuth)

ConfigSetterGuard(s, e, slot, field) ==   \* setters of the config itself
  LET c == Id(e, "whirlpools_config") IN c \in DOMAIN s.cfg /\ AuthIs(e, slot, s.cfg[c][field])

TierSetterGuard(s, e) ==
  LET c == Id(e, "whirlpools_config") t == Id(e, "fee_tier") IN
  /\ c \in DOMAIN s.cfg /\ t \in DOMAIN s.tier /\ s.tier[t].cfg = c /\ AuthIs(e, "fee_authority", s.cfg[c].feeAuth)

ATierSetterGuard(s, e) ==
  LET c == Id(e, "whirlpools_config") t == Id(e, "adaptive_fee_tier") IN
  /\ c \in DOMAIN s.cfg /\ t \in DOMAIN s.atier /\ s.atier[t].cfg = c /\ AuthIs(e, "fee_authority", s.cfg[c].feeAuth)

DelegatedFeeGuard(s, e) ==
  LET p == Id(e, "whirlpool") t == Id(e, "adaptive_fee_tier") IN
  /\ IsPool(s, p) /\ t \in DOMAIN s.atier
  /\ s.atier[t].cfg = s.pool[p].cfg /\ s.atier[t].index = s.pool[p].tierIndex /\ s.pool[p].tierIndex # s.pool[p].spacing
  /\ AuthIs(e, "delegated_fee_authority", s.atier[t].delegatedFeeAuth)

AdaptiveConstantsGuard(s, e) ==
  LET p == Id(e, "whirlpool") c == Id(e, "whirlpools_config") IN
  /\ IsPool(s, p) /\ c \in DOMAIN s.cfg /\ s.pool[p].cfg = c
  /\ p \in DOMAIN s.oracle /\ s.oracle[p].key = Id(e, "oracle")
  /\ AuthIs(e, "fee_authority", s.cfg[c].feeAuth)

RewardAuthGuard(s, e) ==    \* initialize_reward(+v2), set_reward_emissions(+v2), set_reward_authority
  LET p == Id(e, "whirlpool") IN IsPool(s, p) /\ AuthIs(e, "reward_authority", s.pool[p].rewardAuth)

SetEmissionsGuard(s, e) ==
  LET p == Id(e, "whirlpool") i == e.args.index + 1 IN
  /\ RewardAuthGuard(s, e) /\ i \in 1..3 /\ s.pool[p].rewards[i].init /\ Id(e, "reward_vault") = s.pool[p].rewards[i].vault

RewardSuperGuard(s, e) ==
  LET p == Id(e, "whirlpool") c == Id(e, "whirlpools_config") IN
  /\ IsPool(s, p) /\ c \in DOMAIN s.cfg /\ s.pool[p].cfg = c /\ AuthIs(e, "reward_emissions_super_authority", s.cfg[c].rewardSuperAuth)

ExtGuard(s, e, slot, field) ==
  LET c == Id(e, "whirlpools_config") x == Id(e, "whirlpools_config_extension") IN
  /\ c \in DOMAIN s.cfg /\ x \in DOMAIN s.ext /\ s.ext[x].cfg = c /\ AuthIs(e, slot, s.ext[x][field])

BadgeGuard(s, e, needExisting) ==
  /\ ExtGuard(s, e, "token_badge_authority", "badgeAuth")
  /\ IsMint(s, Id(e, "token_mint"))
  /\ needExisting => (Id(e, "token_badge") \in DOMAIN s.badge /\ s.badge[Id(e, "token_badge")].cfg = Id(e, "whirlpools_config")
                      /\ s.badge[Id(e, "token_badge")].mint = Id(e, "token_mint"))

(* position life cycle *)
ClosePositionGuard(s, e, progSlot, prog) ==
  LET x == Id(e, "position") IN
  /\ IsPos(s, x) /\ Id(e, "position_mint") = s.pos[x].mint
  /\ PosAuth(s, e, "position_token_account", "position_authority", s.pos[x].mint)
  /\ Id(e, progSlot) = prog

ResetRangeGuard(s, e) ==
  LET x == Id(e, "position") p == Id(e, "whirlpool") IN
  /\ IsPool(s, p) /\ IsPos(s, x) /\ s.pos[x].pool = p
  /\ PosAuth(s, e, "position_token_account", "position_authority", s.pos[x].mint)

LockGuard(s, e) ==
  LET x == Id(e, "position") p == Id(e, "whirlpool") IN
  /\ IsPool(s, p) /\ IsPos(s, x) /\ s.pos[x].pool = p /\ Id(e, "position_mint") = s.pos[x].mint
  /\ PosAuth(s, e, "position_token_account", "position_authority", s.pos[x].mint)
  /\ Id(e, "token_2022_program") = "prog:token2022"

TransferLockedGuard(s, e) ==
  LET x == Id(e, "position") IN
  /\ IsPos(s, x) /\ Id(e, "position_mint") = s.pos[x].mint
  /\ PosAuth(s, e, "position_token_account", "position_authority", s.pos[x].mint)
  /\ x \in DOMAIN s.lock /\ s.lock[x].key = Id(e, "lock_config")
  /\ TokOfMint(s, Id(e, "destination_token_account"), s.pos[x].mint)
  /\ Id(e, "token_2022_program") = "prog:token2022"

BundleAuth(s, e, authSlot) ==
  LET b == Id(e, "position_bundle") IN
  /\ b \in DOMAIN s.bundle
  /\ PosAuth(s, e, "position_bundle_token_account", authSlot, s.bundle[b].mint)

OpenBundledGuard(s, e)  == BundleAuth(s, e, "position_bundle_authority") /\ IsPool(s, Id(e, "whirlpool"))
CloseBundledGuard(s, e) == BundleAuth(s, e, "position_bundle_authority") /\ IsPos(s, Id(e, "bundled_position"))
DeleteBundleGuard(s, e) ==
  LET b == Id(e, "position_bundle") ta == Id(e, "position_bundle_token_account") IN
  /\ b \in DOMAIN s.bundle /\ Id(e, "position_bundle_mint") = s.bundle[b].mint
  /\ IsTok(s, ta) /\ s.tok[ta].mint = s.bundle[b].mint /\ s.tok[ta].amount \doteq 1
  /\ s.tok[ta].owner = Id(e, "position_bundle_owner") /\ Signed(e, "position_bundle_owner")   \* owner only, no delegate
  /\ Id(e, "token_program") = "prog:token"

Guard(s, e) ==
  LET n == e.name IN
  CASE n \in {"increase_liquidity", "decrease_liquidity"} -> LiquidityGuard(s, e, FALSE)
    [] n \in {"increase_liquidity_v2", "decrease_liquidity_v2", "increase_liquidity_by_token_amounts_v2"} -> LiquidityGuard(s, e, TRUE)
    [] n = "reposition_liquidity_v2" -> RepositionGuard(s, e)
    [] n = "collect_fees" -> CollectFeesGuard(s, e, FALSE)
    [] n = "collect_fees_v2" -> CollectFeesGuard(s, e, TRUE)
    [] n = "collect_reward" -> CollectRewardGuard(s, e, FALSE)
    [] n = "collect_reward_v2" -> CollectRewardGuard(s, e, TRUE)
    [] n = "update_fees_and_rewards" -> UpdateFeesGuard(s, e)
    [] n = "swap" -> SwapGuard(s, e, FALSE)
    [] n = "swap_v2" -> SwapGuard(s, e, TRUE)
    [] n = "two_hop_swap" -> TwoHopGuard(s, e)
    [] n = "two_hop_swap_v2" -> TwoHopV2Guard(s, e)
    [] n = "collect_protocol_fees" -> CollectProtocolGuard(s, e, FALSE)
    [] n = "collect_protocol_fees_v2" -> CollectProtocolGuard(s, e, TRUE)
    [] n \in {"set_fee_rate", "set_protocol_fee_rate"} -> PoolSetterGuard(s, e)
    [] n \in {"set_default_protocol_fee_rate", "set_fee_authority"} -> ConfigSetterGuard(s, e, "fee_authority", "feeAuth")
    [] n = "set_collect_protocol_fees_authority" -> ConfigSetterGuard(s, e, "collect_protocol_fees_authority", "collectAuth")
    [] n = "set_reward_emissions_super_authority" -> ConfigSetterGuard(s, e, "reward_emissions_super_authority", "rewardSuperAuth")
    [] n = "set_default_fee_rate" -> TierSetterGuard(s, e)
    [] n \in {"set_default_base_fee_rate", "set_delegated_fee_authority", "set_initialize_pool_authority", "set_preset_adaptive_fee_constants"} -> ATierSetterGuard(s, e)
    [] n = "set_fee_rate_by_delegated_fee_authority" -> DelegatedFeeGuard(s, e)
    [] n = "set_adaptive_fee_constants" -> AdaptiveConstantsGuard(s, e)
    [] n \in {"initialize_fee_tier", "initialize_adaptive_fee_tier"} ->
         LET c == IF HasSlot(e, "config") THEN Id(e, "config") ELSE Id(e, "whirlpools_config") IN c \in DOMAIN s.cfg /\ AuthIs(e, "fee_authority", s.cfg[c].feeAuth)
    [] n = "initialize_config_extension" -> Id(e, "config") \in DOMAIN s.cfg /\ AuthIs(e, "fee_authority", s.cfg[Id(e, "config")].feeAuth)
    [] n \in {"initialize_reward", "initialize_reward_v2", "set_reward_authority"} -> RewardAuthGuard(s, e)
    [] n \in {"set_reward_emissions", "set_reward_emissions_v2"} -> SetEmissionsGuard(s, e)
    [] n = "set_reward_authority_by_super_authority" -> RewardSuperGuard(s, e)
    [] n \in {"set_config_extension_authority", "set_token_badge_authority"} -> ExtGuard(s, e, "config_extension_authority", "extAuth")
    [] n = "initialize_token_badge" -> BadgeGuard(s, e, FALSE)
    [] n \in {"delete_token_badge", "set_token_badge_attribute"} -> BadgeGuard(s, e, TRUE)
    [] n = "set_config_feature_flag" -> Id(e, "authority") = "admin" /\ Signed(e, "authority")
    [] n = "close_position" -> ClosePositionGuard(s, e, "token_program", "prog:token")
    [] n = "close_position_with_token_extensions" -> ClosePositionGuard(s, e, "token_2022_program", "prog:token2022")
    [] n = "reset_position_range" -> ResetRangeGuard(s, e)
    [] n = "lock_position" -> LockGuard(s, e)
    [] n = "transfer_locked_position" -> TransferLockedGuard(s, e)
    [] n = "open_bundled_position" -> OpenBundledGuard(s, e)
    [] n = "close_bundled_position" -> CloseBundledGuard(s, e)
    [] n = "delete_position_bundle" -> DeleteBundleGuard(s, e)
    \* creation instructions: who may create, and what the new account is attached to
    [] n = "initialize_config" -> Id(e, "funder") = "admin" /\ Signed(e, "funder")
    [] n \in {"initialize_pool", "initialize_pool_v2"} ->
         LET c == Id(e, "whirlpools_config") t == Id(e, "fee_tier") IN
         c \in DOMAIN s.cfg /\ t \in DOMAIN s.tier /\ s.tier[t].cfg = c /\ Signed(e, "funder")
    [] n = "initialize_pool_with_adaptive_fee" ->
         LET c == Id(e, "whirlpools_config") t == Id(e, "adaptive_fee_tier") IN
         /\ c \in DOMAIN s.cfg /\ t \in DOMAIN s.atier /\ s.atier[t].cfg = c /\ Signed(e, "funder")
         /\ Signed(e, "initialize_pool_authority")
         /\ (s.atier[t].initPoolAuth = "none" \/ Id(e, "initialize_pool_authority") = s.atier[t].initPoolAuth)
    [] n \in {"initialize_tick_array", "initialize_dynamic_tick_array", "open_position", "open_position_with_metadata", "open_position_with_token_extensions"} ->
         IsPool(s, Id(e, "whirlpool")) /\ Signed(e, "funder")
    [] n \in {"initialize_position_bundle", "initialize_position_bundle_with_metadata"} -> Signed(e, "funder")
    [] OTHER -> TRUE

(* the authority part alone (C04): who must have signed *)
PositionAuthNames == {"increase_liquidity", "decrease_liquidity", "increase_liquidity_v2", "decrease_liquidity_v2", "increase_liquidity_by_token_amounts_v2",
                      "reposition_liquidity_v2", "collect_fees", "collect_fees_v2", "collect_reward", "collect_reward_v2", "close_position",
                      "close_position_with_token_extensions", "reset_position_range", "lock_position", "transfer_locked_position"}
=============================================================================
