--------------------------- MODULE MC_TransferFee ---------------------------
(* C16 (M): the transfer-fee contracts of WpMath on a complete toy domain: for every fee
   configuration and every needed amount there is exactly one smallest fee-included amount, it is at
   most need + maxFee, removing the fee from it gives back the need, and the excluded amount is
   non-decreasing (which is what makes the closed-form minimality test of TfMinimalFor valid).   *)
EXTENDS WpMath, TLC
CONSTANTS MaxAmt, Bpss, Maxs
VARIABLE x          \* [bps, max, need]
Init == x \in [bps : Bpss, max : Maxs, need : 0..MaxAmt]
Next == UNCHANGED x
Spec == Init /\ [][Next]_x
C == [bps |-> x.bps, max |-> x.max]
Sol == {y \in 0..(x.need + x.max + 1) : TfExcluded(C, y) = x.need}
Exists     == Sol # {}
Smallest   == \A y \in Sol : TfMinimalFor(C, y, x.need) <=> (\A z \in Sol : y <= z)
Monotone   == \A y \in 0..(MaxAmt + 12) : TfExcluded(C, y) <= TfExcluded(C, y + 1) /\ TfExcluded(C, y + 1) <= TfExcluded(C, y) + 1
AddsBack   == \A y \in 0..(MaxAmt + 12) : TfExcluded(C, y) + TfFee(C, y) = y /\ TfFee(C, y) <= y
HundredPct == x.bps = 10000 => (\A y \in Sol : y > 0 => y = x.need + x.max)
=============================================================================
