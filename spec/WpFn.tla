-------------------------------- MODULE WpFn --------------------------------
(* Contracts of the program's pure functions, evaluated by TLC on recorded calls (one event per
   call, written by the `fn' drivers of /verif/harness).  The contracts are the exact big-integer
   statements of the properties; which calls are recorded is decided by the drivers (boundary
   grids derived from the case analysis of the code + seeded random inputs).                    *)
EXTENDS WpMath, Json, IOUtils, TLC, Sequences, FiniteSets, SequencesExt

CONSTANT Active
Rec == ndJsonDeserialize(IOEnv.TRACE)
VARIABLE l
Chk(prop, name, c) ==
  IF prop \notin Active THEN TRUE ELSE IF (TLCSet(8, "-") /\ c) THEN TRUE ELSE (TLCSet(7, <<prop, name>>) /\ FALSE)
Sub(name, c) == IF c THEN TRUE ELSE (TLCSet(8, name) /\ FALSE)

MinTick == -443636
MaxTick == 443636
MinSqrtPrice == "4295048016"
MaxSqrtPrice == "79226673515401279992447579055"
S96 == "79232123823359799118286999567"       \* sqrt(1.0001) in Q96
Tol == BPow2(64)                               \* 2^-32 relative error in Q96

-----------------------------------------------------------------------------
(* C02 / C06: one swap step *)
StepEvent(e) ==
  LET x == [rem |-> e.rem, rate |-> e.rate, L |-> e.L, pc |-> e.pc, pt |-> e.pt, exactIn |-> e.exactIn, aToB |-> e.aToB]
      r == [in |-> e.in, out |-> e.out, p1 |-> e.p1, fee |-> e.fee]
  IN e.ok =>
       /\ Chk("C02", "step_contract", StepOK(x, r))
       /\ Chk("C06", "step_fee", FeeOK(x, r))

-----------------------------------------------------------------------------
(* C09: tick <-> sqrt-price *)
TickOfIdx(e, i) == e.start + i - 1
RatioOK(p0, p1) ==
  LET q == BDiv(p1 \otimes BPow2(96), p0) IN BAbs(q -- S96) \prec Tol

InverseOK(q) ==   \* q = <<price, answer, price(answer), price(answer+1)>>
  /\ MinTick <= q[2] /\ q[2] <= MaxTick
  /\ q[3] \preceq q[1]
  /\ (q[2] = MaxTick \/ q[1] \prec q[4])

TicksEvent(e) ==
  LET n == Len(e.prices) IN
  /\ Chk("C09", "monotone", \A i \in 1..(n - 1) : e.prices[i] \prec e.prices[i + 1])
  /\ Chk("C09", "monotone_next", TickOfIdx(e, n) = MaxTick \/ e.prices[n] \prec e.next)
  /\ Chk("C09", "ratio", \A i \in 1..(n - 1) : RatioOK(e.prices[i], e.prices[i + 1]))
  /\ Chk("C09", "ratio_next", TickOfIdx(e, n) = MaxTick \/ RatioOK(e.prices[n], e.next))
  /\ Chk("C09", "endpoints", \A i \in 1..n :
         /\ TickOfIdx(e, i) = MinTick => e.prices[i] \doteq MinSqrtPrice
         /\ TickOfIdx(e, i) = MaxTick => e.prices[i] \doteq MaxSqrtPrice
         /\ TickOfIdx(e, i) = 0 => e.prices[i] \doteq BPow2(64))
  /\ Chk("C09", "inverse", \A k \in DOMAIN e.queries : InverseOK(e.queries[k]))

PQueriesEvent(e) == Chk("C09", "inverse_random", \A k \in DOMAIN e.q : InverseOK(e.q[k]))

-----------------------------------------------------------------------------
(* C08: liquidity <-> token amounts (function level, Anchor and Pinocchio) *)
DeltasEvent(e) ==
  LET td == TokenDeltas(e.tick, e.sp, e.lo, e.up, e.pLo, e.pUp, e.L, e.increase) IN
  /\ Chk("C08", "anchor_amounts", e.anchor.ok => (e.anchor.a \doteq td[1] /\ e.anchor.b \doteq td[2]))
  /\ Chk("C08", "pino_amounts", e.pino.ok => (e.pino.a \doteq td[1] /\ e.pino.b \doteq td[2]))
  /\ Chk("C08", "same_outcome", e.anchor.ok = e.pino.ok)
  /\ Chk("C08", "fails_only_on_overflow",
         (~e.anchor.ok) => (e.zero \/ AmtMax \prec td[1] \/ AmtMax \prec td[2] \/ BPow2(192) \preceq (e.L \otimes (e.pUp -- e.pLo))))

(* cost of liquidity L at price sp (split on the price, as the estimator does) *)
CostA(e, L) == IF e.pUp \preceq e.sp THEN 0 ELSE AmountA(BMax(e.sp, e.pLo), e.pUp, L, TRUE)
CostB(e, L) == IF e.sp \preceq e.pLo THEN 0 ELSE AmountB(e.pLo, BMin(e.sp, e.pUp), L, TRUE)
MaxLiqEvent(e) ==
  e.ok =>
    /\ Chk("C08", "maxliq_fits", CostA(e, e.L) \preceq e.maxA /\ CostB(e, e.L) \preceq e.maxB)
    /\ Chk("C08", "maxliq_largest", e.maxA \prec CostA(e, e.L ++ 1) \/ e.maxB \prec CostB(e, e.L ++ 1))

-----------------------------------------------------------------------------
(* C12: memory-mapped views vs the Anchor serializers (byte fidelity is observed by the harness; the
   specification states it), and the usable-tick lookup of the Pinocchio tick arrays *)
ViewEvent(e) ==
  /\ Chk("C12", "getters_read_anchor_bytes", e.mismatch = <<>>)
  /\ Chk("C12", "setters_write_anchor_bytes", e.setterSame)
UsableEvent(e) ==
  Chk("C12", "usable_tick_lookup", \A i \in DOMAIN e.q :
        LET t == e.q[i][1] r == e.q[i][2]
            usable == t >= e.start /\ t < e.start + 88 * e.spacing /\ (t - e.start) % e.spacing = 0 /\ t >= MinTick /\ t <= MaxTick
        IN r = (IF usable THEN (t - e.start) \div e.spacing ELSE -1))

-----------------------------------------------------------------------------
(* C16: transfer-fee conversions (Anchor and Pinocchio) *)
TfeeEvent(e) ==
  LET c == [bps |-> e.bps, max |-> e.maxFee] IN
  /\ Chk("C16", "excluded_anchor", e.exclA.ok /\ TfExclOK(c, e.x, e.exclA))
  /\ Chk("C16", "excluded_pinocchio", e.exclP.ok /\ TfExclOK(c, e.x, e.exclP))
  /\ Chk("C16", "included_anchor", e.inclA.ok => TfInclOK(c, e.x, e.inclA))
  /\ Chk("C16", "included_pinocchio", e.inclP.ok => TfInclOK(c, e.x, e.inclP))
  /\ Chk("C16", "same_outcome", e.inclA.ok = e.inclP.ok)
  \* failure is allowed only when no u64 solution exists; one always exists when need + maxFee fits
  /\ Chk("C16", "fails_only_without_solution", (~e.inclA.ok) => (AmtMax \prec (e.x ++ e.maxFee)))

-----------------------------------------------------------------------------
(* C20: the SDK's conversions return the program's values whenever the program succeeds and report
   an error whenever the program rejects the input as overflowing *)
SameOrBothFail(p, s) == IF p.ok THEN (s.ok /\ s.v \doteq p.v) ELSE ~s.ok
SdkTicksEvent(e) == Chk("C20", "tick_price_conversions", \A i \in DOMAIN e.rows : \A j \in 2..5 : e.rows[i][j])
SdkConvEvent(e) ==
  /\ Chk("C20", "amount_delta_a", SameOrBothFail(e.progA, e.sdkA))
  /\ Chk("C20", "amount_delta_b", SameOrBothFail(e.progB, e.sdkB))
  \* the next-price functions are not among the functions the property lists on their own (the SDK's
  \* range check is stricter than the program's); inside a swap they are covered by the quote
  \* comparison.  Only "the program computes a value => the SDK, if it answers, gives the same" is kept.
  /\ Chk("C20", "next_price_from_a", (e.progNextA.ok /\ e.sdkNextA.ok) => e.sdkNextA.v \doteq e.progNextA.v)
  /\ Chk("C20", "next_price_from_b", (e.progNextB.ok /\ e.sdkNextB.ok) => e.sdkNextB.v \doteq e.progNextB.v)
SdkEstEvent(e) ==
  Chk("C20", "token_estimates_for_liquidity", IF e.prog.ok THEN (e.sdk.ok /\ e.sdk.a \doteq e.prog.a /\ e.sdk.b \doteq e.prog.b) ELSE ~e.sdk.ok)
SdkSlipEvent(e) ==
  /\ Chk("C20", "min_on_safe_side", e.min.ok => (e.min.v \preceq e.est /\ e.min.v \doteq MulDivFloor(e.est, 10000 - e.bps, 10000)))
  /\ Chk("C20", "max_on_safe_side", e.max.ok => (e.est \preceq e.max.v /\ e.max.v \doteq MulDivCeil(e.est, 10000 + e.bps, 10000)))

(* Swap records written by the swap hook while the REPOSITORY'S OWN TESTS run (cargo test with the hook cfg,
   VERIF_TRACE_FILE): every swap those tests execute is held to the per-step contract (C02), the fee formula
   and the split / budget bookkeeping (C06) and, on adaptive-fee pools, the rate of the accumulator (C14) -
   whatever the tests themselves assert.                                                           *)
RSeqSum(q, f(_)) == FoldLeft(LAMBDA acc, x : acc ++ f(x), 0, q)
RStepX(sw, s_) == [rem |-> s_.remaining, rate |-> s_.rate, L |-> s_.liq, pc |-> s_.p0, pt |-> s_.btarget, exactIn |-> sw.exact_in, aToB |-> sw.a_to_b]
RStepR(s_)     == [in |-> s_["in"], out |-> s_.out, p1 |-> s_.p1, fee |-> s_.fee]
AfDenFull == (100000 \otimes 10000) \otimes 10000
SwapRecordEvent(sw) ==
  LET st   == sw.steps
      sIn  == RSeqSum(st, LAMBDA s_ : s_["in"] ++ s_.fee)
      sOut == RSeqSum(st, LAMBDA s_ : s_.out)
      sFee == RSeqSum(st, LAMBDA s_ : s_.fee)
      sCut == RSeqSum(st, LAMBDA s_ : ProtoCut(s_.fee, sw.pool.proto_rate))
      fold == FoldLeft(LAMBDA g, s_ : GrowthAfter(g, s_.fee, sw.pool.proto_rate, s_.liq), IF sw.a_to_b THEN sw.pool.fg_a ELSE sw.pool.fg_b, st)
      done == sw.done
  IN /\ Chk("C02", "intree_step_contract", \A i \in DOMAIN st : StepOK(RStepX(sw, st[i]), RStepR(st[i])))
     /\ Chk("C06", "intree_step_fee", \A i \in DOMAIN st : FeeOK(RStepX(sw, st[i]), RStepR(st[i])))
     /\ Chk("C06", "intree_budget", /\ (Len(st) > 0 => st[1].remaining \doteq sw.amount)
                                    /\ \A i \in DOMAIN st : st[i].remaining1 \doteq (IF sw.exact_in THEN (st[i].remaining -- st[i]["in"]) -- st[i].fee ELSE st[i].remaining -- st[i].out)
                                    /\ \A i \in 1..(Len(st) - 1) : st[i + 1].remaining \doteq st[i].remaining1)
     /\ Chk("C06", "intree_totals", done =>
            /\ (IF sw.a_to_b THEN sw.result.amount_a ELSE sw.result.amount_b) \doteq sIn
            /\ (IF sw.a_to_b THEN sw.result.amount_b ELSE sw.result.amount_a) \doteq sOut
            /\ sw.result.proto \doteq sCut /\ sw.result.lp_fee \doteq (sFee -- sCut) /\ sw.result.fg \doteq fold)
     /\ Chk("C14", "intree_rate", \A i \in DOMAIN st :
            LET f == st[i].fm IN
            IF f.kind = "adaptive"
            THEN /\ f.vol_acc \preceq f.max_acc
                 /\ st[i].rate \doteq AfTotalOf(f.static_rate, f.factor, f.group_size, f.vol_acc, AfDenFull, 100000)
                 /\ (~st[i].skip => f.vol_acc \doteq AfAccOf(f.vol_ref, f.group_ref, f.group, 10000, f.max_acc))
            ELSE st[i].rate \doteq sw.pool.fee_rate)

-----------------------------------------------------------------------------
Init == l = 1 /\ TLCSet(7, <<"none", "none">>) /\ TLCSet(8, "none")
Next ==
  /\ l <= Len(Rec)
  /\ l' = l + 1
  /\ LET e == Rec[l] IN
     CASE e.k = "step" -> StepEvent(e)
       [] e.k = "ticks" -> TicksEvent(e)
       [] e.k = "pqueries" -> PQueriesEvent(e)
       [] e.k = "deltas" -> DeltasEvent(e)
       [] e.k = "maxliq" -> MaxLiqEvent(e)
       [] e.k = "tfee" -> TfeeEvent(e)
       [] e.k = "swap" -> SwapRecordEvent(e)
       [] e.k = "sdk_ticks" -> SdkTicksEvent(e)
       [] e.k = "sdk_conv" -> SdkConvEvent(e)
       [] e.k = "sdk_est" -> SdkEstEvent(e)
       [] e.k = "sdk_slip" -> SdkSlipEvent(e)
       [] e.k = "view" -> ViewEvent(e)
       [] e.k = "usable" -> UsableEvent(e)
       [] OTHER -> FALSE
Spec == Init /\ [][Next]_l
Accepted ==
  LET d == TLCGet("stats").diameter IN
  IF d - 1 = Len(Rec) THEN TRUE
  ELSE PrintT(<<"REJECTED", d, TLCGet(7)[1], TLCGet(7)[2], TLCGet(8)>>) /\ FALSE
=============================================================================
