------------------------------ MODULE MC_Deep ------------------------------
(* A larger instance of the toy pool (7 ticks, 3 positions, every action incl. the re-ranging ones, explicit price limits) that is
   not explored exhaustively but by long random walks (TLC -simulate, depth 40): the exhaustive instances stop after 5-6
   operations, where accumulators have wrapped at most once and a position has been re-ranged at most once or twice.          *)
EXTENDS MC_Rerange

DeepPriceOf == [t \in -3..3 |-> CASE t = -3 -> 46 [] t = -2 -> 52 [] t = -1 -> 58 [] t = 0 -> 64 [] t = 1 -> 71 [] t = 2 -> 78 [] t = 3 -> 86]
DeepMinTick == -3
DeepRanges == {<<-3, 3>>, <<-2, 2>>, <<-1, 1>>, <<0, 2>>, <<-2, 0>>, <<-1, 0>>, <<0, 1>>, <<1, 3>>, <<-3, -1>>, <<2, 3>>}
DeepLimits == {0, 49, 55, 58, 68, 71, 82}
=============================================================================
