SPECIFICATION SpecR
CONSTANTS
  QBits = 6
  WrapBits = 20
  AmtBits = 14
  FeeDen = 1000000
  ProtoDen = 10000
  MinTick <- DeepMinTick
  MaxTick = 3
  PriceOf <- DeepPriceOf
  FeeRate = 60000
  ProtoRate = 2500
  PosIds = {1, 2, 3}
  Users = {"lp1", "lp2"}
  Traders = {"t1"}
  Ranges <- DeepRanges
  LiqUnits = {64, 640}
  Amounts = {3, 40, 100}
  StartGrowth <- MCStartGrowth
  Limits <- DeepLimits
  Thresholds <- MCVacuous
  MaxOps = 40
CHECK_DEADLOCK FALSE
INVARIANT TypeOK
INVARIANT LiqSum
INVARIANT TickSums
INVARIANT Solvent
INVARIANT FeeUpper
INVARIANT FeeLower
INVARIANT NoFreeLunch
PROPERTY RerangeKeepsOwedProp
PROPERTY SwapBoundsProp
PROPERTY SplitExactProp
