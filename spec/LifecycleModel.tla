--------------------------- MODULE LifecycleModel ---------------------------
(* C18 (M + G): the life cycle of a position as a small state machine.  TLC checks the model's
   invariants over all behaviours and (simulation mode) generates operation sequences that the
   harness replays into the real program; the recorded executions are then judged by the C18
   predicates of WpTrace on the REAL logged state (emptiness, lock, bitmap), so the model only has
   to drive the program through every phase - it does not have to agree with it on arithmetic.

   st: "none" | "empty" | "liq" | "locked" | "closed";  owed: fees/rewards may be owed (abstractly);
   kind: "plain" | "meta" | "te" (token extensions) | "bundled".                                  *)
EXTENDS Integers, Sequences, TLC, Json
CONSTANT Depth
VARIABLES st, kind, owed, path
vars == <<st, kind, owed, path>>
Kinds == {"plain", "meta", "te", "bundled"}
RangeKinds == {"normal", "lowerFromPrice", "upperFromPrice", "fullRangeOnlyPool"}

Init == st = "none" /\ kind = "plain" /\ owed = FALSE /\ path = <<>>
Do(op) == path' = Append(path, op)

Open(k, r) == /\ st \in {"none", "closed"} /\ st' = "empty" /\ kind' = k /\ owed' = FALSE /\ Do([op |-> "open", kind |-> k, range |-> r])
Increase   == /\ st \in {"empty", "liq", "locked"} /\ st' = (IF st = "locked" THEN "locked" ELSE "liq") /\ UNCHANGED <<kind, owed>> /\ Do([op |-> "increase"])
DecPart    == /\ st = "liq" /\ st' = "liq" /\ UNCHANGED <<kind, owed>> /\ Do([op |-> "decrease_part"])
DecAll     == /\ st = "liq" /\ st' = "empty" /\ owed' = TRUE /\ UNCHANGED kind /\ Do([op |-> "decrease_all"])
Accrue     == /\ st \in {"liq", "locked"} /\ owed' = TRUE /\ UNCHANGED <<st, kind>> /\ Do([op |-> "accrue"])
Collect    == /\ st \in {"empty", "liq", "locked"} /\ owed' = FALSE /\ UNCHANGED <<st, kind>> /\ Do([op |-> "collect"])
Reset      == /\ st = "empty" /\ ~owed /\ UNCHANGED <<st, kind, owed>> /\ Do([op |-> "reset_range"])
Reposition == /\ st = "liq" /\ UNCHANGED <<st, kind, owed>> /\ Do([op |-> "reposition"])
Lock       == /\ st = "liq" /\ kind = "te" /\ st' = "locked" /\ UNCHANGED <<kind, owed>> /\ Do([op |-> "lock"])
Transfer   == /\ st = "locked" /\ UNCHANGED <<st, kind, owed>> /\ Do([op |-> "transfer_locked"])
Close      == /\ st = "empty" /\ ~owed /\ st' = "closed" /\ UNCHANGED <<kind, owed>> /\ Do([op |-> "close"])

Next == /\ Len(path) < Depth
        /\ \/ \E k \in Kinds, r \in RangeKinds : Open(k, r)
           \/ Increase \/ DecPart \/ DecAll \/ Accrue \/ Collect \/ Reset \/ Reposition \/ Lock \/ Transfer \/ Close
Spec == Init /\ [][Next]_vars

(* model-level statements of the property *)
LockedKeepsLiquidity == [][st = "locked" => st' = "locked"]_vars
ClosedOnlyEmpty      == [][st' = "closed" => (st = "empty" /\ ~owed)]_vars
OnlyLiquidLocks      == [][(st' = "locked" /\ st # "locked") => st = "liq"]_vars
TypeOK == st \in {"none", "empty", "liq", "locked", "closed"} /\ kind \in Kinds

(* (G) one line per generated behaviour of full depth *)
Emit == (Len(path) = Depth) => PrintT("REPLAY " \o ToJson(path))
=============================================================================
