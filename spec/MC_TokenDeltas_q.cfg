SPECIFICATION Spec
CONSTANTS
  QBits = 6
  WrapBits = 20
  AmtBits = 14
  FeeDen = 1000000
  ProtoDen = 10000
  LMax = 200
INVARIANT RoundTrip
INVARIANT OneSided
INVARIANT Monotone
INVARIANT SplitSafe
CHECK_DEADLOCK FALSE
