SPECIFICATION SpecR
CONSTANTS
  QBits = 6
  WrapBits = 20
  AmtBits = 14
  FeeDen = 1000000
  ProtoDen = 10000
  MinTick <- MCMinTick
  MaxTick = 2
  PriceOf <- MCPriceOf
  FeeRate = 60000
  ProtoRate = 2500
  PosIds = {1, 2}
  Users = {"lp1", "lp2"}
  Traders = {"t1"}
  Ranges <- MCRanges
  LiqUnits = {64, 640}
  Amounts = {3, 40, 100}
  StartGrowth <- MCStartGrowth
  Limits <- MCNoLimits
  Thresholds <- MCVacuous
  MaxOps = 4
CHECK_DEADLOCK FALSE
VIEW viewG
INVARIANT TypeOK
INVARIANT LiqSum
INVARIANT TickSums
INVARIANT Solvent
INVARIANT NoFreeLunch
PROPERTY RerangeKeepsOwedProp
PROPERTY OwnerSignedProp
