------------------------------- MODULE LiqInd -------------------------------
(* C05 for unbounded magnitudes: the liquidity-sum invariants are INDUCTIVE over the protocol's liquidity
   rules.  Apalache checks  Init => IndInv  and  IndInv /\ Next => IndInv'  symbolically, i.e. for every
   integer liquidity, every assignment of ranges and every current tick - not for the few values a TLC
   instance enumerates.  The actions are the liquidity rules of module Whirlpool with the token / fee
   bookkeeping (irrelevant to C05) dropped:
     Modify   - a position's liquidity changes by d: pool liquidity if in range, net / gross of its two ticks;
     Cross    - the price crosses the next initialized tick in either direction (a->b leaves tick - 1);
     Glide    - the price moves without crossing an initialized tick;
     Open / Close / Rerange of empty positions.                                                     *)
EXTENDS Integers, FiniteSets, Apalache

CONSTANTS
  \* @type: Set(Int);
  Ticks,
  \* @type: Set(Int);
  PosIds

VARIABLES
  \* @type: Int;
  tc,
  \* @type: Int;
  liq,
  \* @type: Int -> { net: Int, gross: Int };
  tk,
  \* @type: Int -> { open: Bool, lo: Int, up: Int, l: Int };
  pos

ConstInit == Ticks = -3..3 /\ PosIds = 1..3

\* @type: (Set(Int)) => Int;
SumL(S) == ApaFoldSet(LAMBDA acc, i : acc + pos[i].l, 0, S)

InRangeSet(t) == {i \in PosIds : pos[i].open /\ pos[i].lo <= t /\ t < pos[i].up}
LowerAt(t)    == {i \in PosIds : pos[i].open /\ pos[i].lo = t}
UpperAt(t)    == {i \in PosIds : pos[i].open /\ pos[i].up = t}

TypeOK ==
  /\ (tc \in Ticks \/ tc = -4)            \* an a -> b crossing of the lowest tick leaves the current tick one below it
  /\ \A i \in PosIds : pos[i].l >= 0 /\ pos[i].lo \in Ticks /\ pos[i].up \in Ticks /\ pos[i].lo < pos[i].up
                       /\ (~pos[i].open => pos[i].l = 0)
  /\ DOMAIN tk = Ticks /\ DOMAIN pos = PosIds

LiqSum   == liq = SumL(InRangeSet(tc))
TickSums == \A t \in Ticks :
               /\ tk[t].net = SumL(LowerAt(t)) - SumL(UpperAt(t))
               /\ tk[t].gross = SumL(LowerAt(t)) + SumL(UpperAt(t))
IndInv == TypeOK /\ LiqSum /\ TickSums

Initialized(t) == tk[t].gross > 0

Init ==
  /\ tc \in Ticks /\ liq = 0
  /\ tk = [t \in Ticks |-> [net |-> 0, gross |-> 0]]
  /\ pos = [i \in PosIds |-> [open |-> FALSE, lo |-> -3, up |-> 3, l |-> 0]]

Open(i, lo, up) ==
  /\ ~pos[i].open /\ lo < up
  /\ pos' = [pos EXCEPT ![i] = [open |-> TRUE, lo |-> lo, up |-> up, l |-> 0]]
  /\ UNCHANGED <<tc, liq, tk>>

Close(i) ==
  /\ pos[i].open /\ pos[i].l = 0
  /\ pos' = [pos EXCEPT ![i] = [open |-> FALSE, lo |-> pos[i].lo, up |-> pos[i].up, l |-> 0]]
  /\ UNCHANGED <<tc, liq, tk>>

Rerange(i, lo, up) ==
  /\ pos[i].open /\ pos[i].l = 0 /\ lo < up
  /\ pos' = [pos EXCEPT ![i] = [open |-> TRUE, lo |-> lo, up |-> up, l |-> 0]]
  /\ UNCHANGED <<tc, liq, tk>>

Modify(i, d) ==
  LET p == pos[i] IN
  /\ p.open /\ p.l + d >= 0
  /\ pos' = [pos EXCEPT ![i] = [open |-> TRUE, lo |-> p.lo, up |-> p.up, l |-> p.l + d]]
  /\ tk' = [t \in Ticks |->
              IF t = p.lo THEN [net |-> tk[t].net + d, gross |-> tk[t].gross + d]
              ELSE IF t = p.up THEN [net |-> tk[t].net - d, gross |-> tk[t].gross + d]
              ELSE tk[t]]
  /\ liq' = IF p.lo <= tc /\ tc < p.up THEN liq + d ELSE liq
  /\ UNCHANGED tc

\* a -> b: crossing initialized tick t (t <= tc, nothing initialized in (t, tc]) leaves the current tick at t - 1
CrossDown(t) ==
  /\ t \in Ticks /\ t <= tc /\ Initialized(t)
  /\ \A u \in Ticks : (t < u /\ u <= tc) => ~Initialized(u)
  /\ tc' = t - 1 /\ liq' = liq - tk[t].net
  /\ UNCHANGED <<tk, pos>>

\* b -> a: crossing initialized tick t (t > tc, nothing initialized in (tc, t)) leaves the current tick at t
CrossUp(t) ==
  /\ t \in Ticks /\ t > tc /\ Initialized(t)
  /\ \A u \in Ticks : (tc < u /\ u < t) => ~Initialized(u)
  /\ tc' = t /\ liq' = liq + tk[t].net
  /\ UNCHANGED <<tk, pos>>

\* the price moves to tick n without crossing an initialized tick (going down, ticks in (n, tc]; going up, in (tc, n])
Glide(n) ==
  /\ (n \in Ticks \/ n = -4)
  /\ \A u \in Ticks : ((n < u /\ u <= tc) \/ (tc < u /\ u <= n)) => ~Initialized(u)
  /\ tc' = n
  /\ UNCHANGED <<liq, tk, pos>>

Next ==
  \/ \E i \in PosIds, lo \in Ticks, up \in Ticks : Open(i, lo, up) \/ Rerange(i, lo, up)
  \/ \E i \in PosIds : Close(i)
  \/ \E i \in PosIds, d \in Int : Modify(i, d)
  \/ \E t \in Ticks : CrossDown(t) \/ CrossUp(t) \/ Glide(t)
  \/ Glide(-4)

\* for the inductive step: any state satisfying the invariant
IndInit ==
  /\ tc = Gen(1) /\ liq = Gen(1)
  /\ tk = Gen(7)         \* any function with at most |Ticks| entries (TypeOK pins its domain)
  /\ pos = Gen(3)
  /\ IndInv
=============================================================================
