----------------------------- MODULE AdaptiveFee -----------------------------
(* The adaptive-fee bookkeeping of the swap loop (FeeRateManager) as a state machine (C14).

   Prices are positions on an integer line with U sub-units per tick; tick = floor(x / U), tick group =
   floor(tick / GS).  One behaviour is one swap: Start (reference already updated: groupRef, volRef
   given) then the program's nested loops - outer: next initialized tick / limit; inner: update the
   accumulator for the manager's tick group, take the rate, bound the target at the tick-group boundary
   or SKIP (zero control factor, zero liquidity, outside the core range where the accumulator sticks to
   its maximum), step, advance the tick group (plain or after-skip rule).  The step itself is abstract:
   with liquidity it stops anywhere between the current price and the bounded target (amount exhausted)
   or reaches it; without liquidity it jumps to the target.

   What is checked (ghost `ok'): DECLARATIVELY, every unit of price the swap trades through with
   liquidity is charged the total rate of the tick group that unit lies in - independent of the
   skip optimisation - and the accumulator stored at the end is the one of the group where the swap
   ended or of the adjacent group in trade direction.  The rate formulas are WpMath's, shared with
   the trace specification that checks the same obligations on recorded swaps of the real program. *)
EXTENDS WpMath, Integers, FiniteSets, TLC

CONSTANTS GS, U, TMin, TMax,          \* tick group size, sub-units per tick, usable ticks
          Scale, MaxAccs, Factors, Static, Den, Hard,
          VolRefs, Layouts              \* Layouts: set of functions tick -> liquidity of [tick, tick+1)

Ticks == TMin..TMax
XMin == TMin * U
XMax == TMax * U
TickOf(x) == x \div U                   \* floor (Integers' \div floors)
OnTick(x) == x % U = 0
GroupOfTick(t) == t \div GS
NONE == [none |-> TRUE]

VARIABLES phase, x, ct, liq, aToB, limit, lay, factor, maxAcc, groupRef, volRef,
          tgi, acc, coreLo, coreUp,    \* manager state; core range bounds: NONE or [g, x]
          tgtTick, tgtX,               \* outer loop: next initialized tick and price target
          x0, ok, endedOnBoundary
vars == <<phase, x, ct, liq, aToB, limit, lay, factor, maxAcc, groupRef, volRef, tgi, acc, coreLo, coreUp, tgtTick, tgtX, x0, ok, endedOnBoundary>>

Net(l, t) == (IF t \in DOMAIN l THEN l[t] ELSE 0) - (IF (t - 1) \in DOMAIN l THEN l[t - 1] ELSE 0)   \* liquidity change going up through t
InitTick(l, t) == Net(l, t) # 0

AccG(g) == AfAccOf(volRef, groupRef, g, Scale, maxAcc)
RateG(g) == AfTotalOf(Static, factor, GS, AccG(g), Den, Hard)
RateNow(a) == AfTotalOf(Static, factor, GS, a, Den, Hard)

Init ==
  /\ phase = "start"
  /\ x \in XMin..XMax /\ ct = TickOf(x) /\ x0 = x
  /\ lay \in Layouts /\ liq = (IF ct \in DOMAIN lay THEN lay[ct] ELSE 0)
  /\ aToB \in BOOLEAN /\ limit \in XMin..XMax
  /\ IF aToB THEN limit < x ELSE limit > x
  /\ factor \in Factors /\ maxAcc \in MaxAccs
  /\ groupRef \in GroupOfTick(TMin)..GroupOfTick(TMax) /\ volRef \in {v \in VolRefs : v <= maxAcc}
  /\ tgi = 0 /\ acc \in {0, maxAcc} /\ coreLo = NONE /\ coreUp = NONE /\ tgtTick = 0 /\ tgtX = 0
  /\ ok = TRUE /\ endedOnBoundary = FALSE

(* FeeRateManager::new (after update_reference) *)
Start ==
  /\ phase = "start"
  /\ LET d  == CeilDiv(maxAcc - volRef, Scale)
         lo == groupRef - d
         up == groupRef + d
         loT == lo * GS
         upT == up * GS + GS
     IN /\ tgi' = GroupOfTick(ct)
        /\ coreLo' = IF loT > TMin THEN [g |-> lo, x |-> loT * U] ELSE NONE
        /\ coreUp' = IF upT < TMax THEN [g |-> up, x |-> upT * U] ELSE NONE
  /\ phase' = "outer"
  /\ UNCHANGED <<x, ct, liq, aToB, limit, lay, factor, maxAcc, groupRef, volRef, acc, tgtTick, tgtX, x0, ok, endedOnBoundary>>

(* outer loop head: next initialized tick (a->b: at or below the current index; b->a: above it) *)
Outer ==
  /\ phase = "outer"
  /\ LET cand == IF aToB THEN {t \in Ticks : t <= ct /\ InitTick(lay, t)} ELSE {t \in Ticks : t > ct /\ InitTick(lay, t)}
         nt   == IF cand = {} THEN (IF aToB THEN TMin ELSE TMax)
                 ELSE IF aToB THEN CHOOSE t \in cand : \A s \in cand : s <= t ELSE CHOOSE t \in cand : \A s \in cand : t <= s
     IN /\ tgtTick' = nt
        /\ tgtX' = IF aToB THEN (IF nt * U > limit THEN nt * U ELSE limit) ELSE (IF nt * U < limit THEN nt * U ELSE limit)
  /\ phase' = "inner"
  /\ UNCHANGED <<x, ct, liq, aToB, limit, lay, factor, maxAcc, groupRef, volRef, tgi, acc, coreLo, coreUp, x0, ok, endedOnBoundary>>

(* get_bounded_sqrt_price_target: <<bounded target, skip>> *)
Bounded(a1) ==
  IF factor = 0 \/ liq = 0 THEN <<tgtX, TRUE>>
  ELSE IF coreLo # NONE /\ tgi < coreLo.g THEN (IF aToB THEN <<tgtX, TRUE>> ELSE <<(IF tgtX < coreLo.x THEN tgtX ELSE coreLo.x), TRUE>>)
  ELSE IF coreUp # NONE /\ tgi > coreUp.g THEN (IF aToB THEN <<(IF tgtX > coreUp.x THEN tgtX ELSE coreUp.x), TRUE>> ELSE <<tgtX, TRUE>>)
  ELSE LET bt == IF aToB THEN tgi * GS ELSE tgi * GS + GS
           bx == (IF bt < TMin THEN TMin ELSE IF bt > TMax THEN TMax ELSE bt) * U
       IN IF aToB THEN <<(IF tgtX > bx THEN tgtX ELSE bx), FALSE>> ELSE <<(IF tgtX < bx THEN tgtX ELSE bx), FALSE>>

(* the groups a traded segment passes through with positive length *)
GroupsOfSegment(a, b) == LET lo == IF a < b THEN a ELSE b hi == IF a < b THEN b ELSE a IN {GroupOfTick(TickOf(p)) : p \in lo..(hi - 1)}

(* advance_tick_group_after_skip *)
AfterSkip(nx, a1) ==
  LET atNext == nx = tgtTick * U
      tick   == IF atNext THEN tgtTick ELSE TickOf(nx)
      onB    == IF atNext THEN tgtTick % GS = 0 ELSE (tick % GS = 0 /\ OnTick(nx))
      lastG  == IF onB /\ ~aToB THEN tick \div GS - 1 ELSE GroupOfTick(tick)
      moved  == (aToB /\ lastG < tgi) \/ (~aToB /\ lastG > tgi)
      g1     == IF moved THEN lastG ELSE tgi
  IN [tgi |-> g1 + (IF aToB THEN -1 ELSE 1), acc |-> IF moved THEN AccG(lastG) ELSE a1]

(* one iteration of the inner loop; nx = price after the step, exhausted = amount_remaining = 0 afterwards *)
Inner(nx, exhausted) ==
  /\ phase = "inner"
  /\ LET a1   == AccG(tgi)                      \* update_volatility_accumulator
         rate == RateNow(a1)
         bs   == Bounded(a1)
         bx   == bs[1]
         skip == bs[2]
     IN /\ IF aToB THEN bx <= nx /\ nx <= x ELSE x <= nx /\ nx <= bx
        /\ (liq = 0) => (nx = bx /\ ~exhausted)                   \* no liquidity: jumps to the target, nothing traded
        /\ (nx # bx) => exhausted                                  \* stopping short means the amount ran out
        /\ (exhausted /\ nx = x) => liq > 0                        \* everything went to fees
        \* DECLARATIVE OBLIGATION: each group traded through is charged its own rate
        /\ ok' = (ok /\ (liq > 0 => \A g \in GroupsOfSegment(x, nx) : rate = RateG(g))
                     /\ Static <= rate /\ rate <= Hard /\ a1 <= maxAcc)
        /\ LET reachedTick == nx = tgtTick * U
               cross       == reachedTick /\ InitTick(lay, tgtTick)
               adv         == IF skip THEN AfterSkip(nx, a1) ELSE [tgi |-> tgi + (IF aToB THEN -1 ELSE 1), acc |-> a1]
           IN /\ liq' = IF cross THEN (IF aToB THEN liq - Net(lay, tgtTick) ELSE liq + Net(lay, tgtTick)) ELSE liq
              /\ ct' = IF reachedTick THEN (IF aToB THEN tgtTick - 1 ELSE tgtTick) ELSE IF nx # x THEN TickOf(nx) ELSE ct
              /\ tgi' = adv.tgi /\ acc' = adv.acc
        /\ x' = nx
        /\ endedOnBoundary' = (OnTick(nx) /\ TickOf(nx) % GS = 0)
        /\ phase' = IF exhausted \/ nx = limit THEN "done" ELSE IF nx = tgtX THEN "outer" ELSE "inner"
  /\ UNCHANGED <<aToB, limit, lay, factor, maxAcc, groupRef, volRef, coreLo, coreUp, tgtTick, tgtX, x0>>

Next ==
  \/ Start \/ Outer
  \/ \E nx \in XMin..XMax, ex \in BOOLEAN : Inner(nx, ex)

Spec == Init /\ [][Next]_vars

-----------------------------------------------------------------------------
EveryGroupChargedItsRate == ok
AccumulatorCapped == acc <= maxAcc
(* the stored accumulator belongs to the group where the swap ended, or to the adjacent one in trade direction *)
EndGroups == LET g == GroupOfTick(TickOf(x)) IN {g} \cup (IF endedOnBoundary THEN {g - 1} ELSE {})
StoredAccumulator ==
  phase = "done" => \E g \in EndGroups \cup {h + (IF aToB THEN -1 ELSE 1) : h \in EndGroups} : acc = AccG(g)
ZeroFactorIsStatic == factor = 0 => ok      \* (with factor 0 RateG = Static for every group)
PriceWithinLimit == IF aToB THEN limit <= x /\ x <= x0 ELSE x0 <= x /\ x <= limit
=============================================================================
