------------------------------- MODULE WpMath -------------------------------
(* Exact arithmetic of the Whirlpool protocol: token amounts of a liquidity range, one swap
   step (contract + canonical function), fee split, growth accumulators and credits.

   The same definitions are instantiated at toy scale (QBits = 6, WrapBits = 12, small prices;
   exhaustive model checking) and at full scale (QBits = 64, WrapBits = 128; evaluated on every
   recorded step of the real program).  All arithmetic goes through module BigInt.           *)
EXTENDS BigInt, Integers

CONSTANTS QBits,      \* fixed-point fraction bits of a sqrt-price (64 on chain)
          WrapBits,   \* width of the wrapping growth accumulators (128 on chain)
          AmtBits,    \* width of token amounts (64 on chain)
          FeeDen,     \* fee-rate denominator (10^6 on chain)
          ProtoDen    \* protocol-fee-rate denominator (10^4 on chain)

Q        == BPow2(QBits)
AmtMax   == BPow2(AmtBits) -- 1
WrapMod  == BPow2(WrapBits)

WAdd(a, b) == Wrap(a ++ b, WrapBits)
WSub(a, b) == Wrap((a ++ WrapMod) -- b, WrapBits)

-----------------------------------------------------------------------------
(* Token amounts held by liquidity L between two sqrt-prices (order-insensitive).            *)
AmountA(p0, p1, L, up) ==
  LET lo  == BMin(p0, p1)
      hi  == BMax(p0, p1)
      num == (L \otimes Q) \otimes (hi -- lo)
      den == hi \otimes lo
  IN IF up THEN CeilDiv(num, den) ELSE BDiv(num, den)

AmountB(p0, p1, L, up) ==
  LET lo  == BMin(p0, p1)
      hi  == BMax(p0, p1)
      num == L \otimes (hi -- lo)
  IN IF up THEN CeilDiv(num, Q) ELSE BDiv(num, Q)

(* Token amounts <<a, b>> of liquidity L in range [lo, up) when the pool is at (tick, sp);
   pLo / pUp are the sqrt-prices of the bounds.  Three-way split on the *tick*, as the program. *)
TokenDeltas(tick, sp, lo, up, pLo, pUp, L, roundUp) ==
  IF tick < lo THEN <<AmountA(pLo, pUp, L, roundUp), 0>>
  ELSE IF tick < up THEN <<AmountA(sp, pUp, L, roundUp), AmountB(pLo, sp, L, roundUp)>>
  ELSE <<0, AmountB(pLo, pUp, L, roundUp)>>

-----------------------------------------------------------------------------
(* One swap step inside a constant-liquidity segment.
   x = [rem, rate, L, pc, pt, exactIn, aToB]   r = [in, out, p1, fee]                        *)

StepIn(pc, p1, L, aToB)  == IF aToB THEN AmountA(pc, p1, L, TRUE) ELSE AmountB(pc, p1, L, TRUE)
StepOut(pc, p1, L, aToB) == IF aToB THEN AmountB(pc, p1, L, FALSE) ELSE AmountA(pc, p1, L, FALSE)

NetOfFee(rem, rate) == MulDivFloor(rem, FeeDen -- rate, FeeDen)

Between(pc, pt, p1, aToB) ==
  IF aToB THEN (pt \preceq p1) /\ (p1 \preceq pc) ELSE (pc \preceq p1) /\ (p1 \preceq pt)

(* the price moved by n representable units further in trade direction / back towards pc *)
Further(p, n, aToB) == IF aToB THEN p -- n ELSE p ++ n
Back(p, n, aToB)    == IF aToB THEN p ++ n ELSE p -- n

(* C02: the contract of a successful step. "To within one representable price unit" is written
   with a tolerance of one unit: moving two more units must be unaffordable (exact-in) and
   stopping two units earlier must under-deliver (exact-out).                                  *)
StepOK(x, r) ==
  /\ Between(x.pc, x.pt, r.p1, x.aToB)
  /\ r.in  \doteq StepIn(x.pc, r.p1, x.L, x.aToB)
  /\ r.out \doteq (IF x.exactIn THEN StepOut(x.pc, r.p1, x.L, x.aToB)
                   ELSE BMin(StepOut(x.pc, r.p1, x.L, x.aToB), x.rem))
  /\ x.exactIn =>
        /\ r.in \preceq NetOfFee(x.rem, x.rate)
        /\ (r.in ++ r.fee) \preceq x.rem
        /\ ~(r.p1 \doteq x.pt) =>
              /\ (r.in ++ r.fee) \doteq x.rem
              /\ \/ ~Between(x.pc, x.pt, Further(r.p1, 2, x.aToB), x.aToB)
                 \/ NetOfFee(x.rem, x.rate) \prec StepIn(x.pc, Further(r.p1, 2, x.aToB), x.L, x.aToB)
  /\ ~x.exactIn =>
        /\ r.out \preceq x.rem
        /\ ~(r.p1 \doteq x.pt) =>
              /\ r.out \doteq x.rem
              /\ \/ ~Between(x.pc, x.pt, Back(r.p1, 2, x.aToB), x.aToB)
                 \/ StepOut(x.pc, Back(r.p1, 2, x.aToB), x.L, x.aToB) \prec x.rem

(* C06: the fee of a step. *)
FeeOfIn(in, rate) == MulDivCeil(in, rate, FeeDen -- rate)
FeeOK(x, r) ==
  IF x.exactIn /\ ~(r.p1 \doteq x.pt)
  THEN r.fee \doteq (x.rem -- r.in)
  ELSE r.fee \doteq FeeOfIn(r.in, x.rate)

(* The canonical step: what the program computes today (used by the toy state machine, and
   checked against the contract above by MC_SwapStep).  Returns [ok |-> FALSE] when the program
   would fail.                                                                                *)
NextPriceFixA(pc, L, amt, exactIn) ==
  \* token A is the fixed side: price rounded up
  IF amt \doteq 0 THEN [ok |-> TRUE, p |-> pc]
  ELSE LET num == (L \otimes pc) \otimes Q
           lq  == L \otimes Q
           pr  == amt \otimes pc
       IN IF exactIn THEN [ok |-> TRUE, p |-> CeilDiv(num, lq ++ pr)]
          ELSE IF lq \preceq pr THEN [ok |-> FALSE, p |-> 0]
               ELSE [ok |-> TRUE, p |-> CeilDiv(num, lq -- pr)]

NextPriceFixB(pc, L, amt, exactIn) ==
  \* token B is the fixed side: price rounded down
  IF exactIn THEN [ok |-> TRUE, p |-> pc ++ BDiv(amt \otimes Q, L)]
  ELSE LET d == CeilDiv(amt \otimes Q, L)
       IN IF pc \prec d THEN [ok |-> FALSE, p |-> 0] ELSE [ok |-> TRUE, p |-> pc -- d]

Step(x, MinP, MaxP) ==
  LET fixedFull == IF x.exactIn THEN StepIn(x.pc, x.pt, x.L, x.aToB) ELSE StepOut(x.pc, x.pt, x.L, x.aToB)
      calc      == IF x.exactIn THEN NetOfFee(x.rem, x.rate) ELSE x.rem
      np        == IF fixedFull \preceq calc THEN [ok |-> TRUE, p |-> x.pt]
                   ELSE IF x.L \doteq 0 THEN [ok |-> FALSE, p |-> 0]
                   ELSE IF x.exactIn = x.aToB THEN NextPriceFixA(x.pc, x.L, calc, x.exactIn)
                   ELSE NextPriceFixB(x.pc, x.L, calc, x.exactIn)
  IN IF ~np.ok \/ np.p \prec MinP \/ MaxP \prec np.p THEN [ok |-> FALSE]
     ELSE LET p1   == np.p
              in   == StepIn(x.pc, p1, x.L, x.aToB)
              outF == StepOut(x.pc, p1, x.L, x.aToB)
              out  == IF x.exactIn THEN outF ELSE BMin(outF, x.rem)
              max  == p1 \doteq x.pt
              fee  == IF x.exactIn /\ ~max THEN x.rem -- in ELSE FeeOfIn(in, x.rate)
          IN IF AmtMax \prec in \/ AmtMax \prec out \/ AmtMax \prec fee \/ (x.exactIn /\ ~max /\ x.rem \prec in)
             THEN [ok |-> FALSE]
             ELSE [ok |-> TRUE, in |-> in, out |-> out, p1 |-> p1, fee |-> fee]

-----------------------------------------------------------------------------
(* Fee split and growth accumulators (C06, C07). *)
ProtoCut(fee, protoRate) == BDiv(fee \otimes protoRate, ProtoDen)
GrowthInc(lpFee, L)      == BDiv(lpFee \otimes Q, L)                  \* L > 0
GrowthAfter(g, fee, protoRate, L) ==
  IF L \doteq 0 THEN g ELSE WAdd(g, GrowthInc(fee -- ProtoCut(fee, protoRate), L))

(* growth inside [lo, up) given the two outside values and whether each tick is initialized.
   By the program's convention an uninitialized lower tick has all growth below it and an
   uninitialized upper tick none above it (which is what initializing them now would record). *)
GrowthInside(tick, lo, up, global, initLo, outLo, initUp, outUp) ==
  LET below == IF ~initLo THEN global ELSE IF tick < lo THEN WSub(global, outLo) ELSE outLo
      above == IF ~initUp THEN 0 ELSE IF tick < up THEN outUp ELSE WSub(global, outUp)
  IN WSub(WSub(global, below), above)

(* credit of a growth delta to liquidity L: floor(L * delta / 2^Q), dropped (0) when the
   product does not fit in the accumulator width (the program: checked_mul overflow => 0).     *)
Credit(L, delta) ==
  LET p == L \otimes delta IN IF WrapMod \preceq p THEN 0 ELSE BDiv(p, Q)

(* reward growth accrued over dt seconds at `em' (Q-scaled tokens per second) shared by in-range
   liquidity L: floor(dt * em / L); nothing when L = 0, dt = 0, or dt * em does not fit the
   accumulator width (the program: checked_mul_div overflow => no accrual for that interval).   *)
RewardAccrues(dt, em, L)     == ~(L \doteq 0) /\ ~(dt \doteq 0) /\ ~(WrapMod \preceq (dt \otimes em))
RewardGrowthDelta(dt, em, L) == IF RewardAccrues(dt, em, L) THEN BDiv(dt \otimes em, L) ELSE 0

-----------------------------------------------------------------------------
(* Adaptive fee (C14), parametric in the scale factors so that the toy model (AdaptiveFee.tla) and the
   trace specification share the definitions.  Accumulator of tick group g given the reference; adaptive
   and total rate of an accumulator value.                                                       *)
AfAccOf(volRef, groupRef, g, scale, maxAcc) == BMin(volRef ++ (BAbs(groupRef -- g) \otimes scale), maxAcc)
AfRateOf(factor, groupSize, acc, den, hard) ==
  LET crossed == acc \otimes groupSize IN BMin(CeilDiv(factor \otimes (crossed \otimes crossed), den), hard)
AfTotalOf(static, factor, groupSize, acc, den, hard) == BMin(static ++ AfRateOf(factor, groupSize, acc, den, hard), hard)

-----------------------------------------------------------------------------
(* Token-2022 transfer fees (C16).  c = [bps, max]. *)
TfFee(c, x) == IF c.bps = 0 \/ x \doteq 0 THEN 0 ELSE BMin(MulDivCeil(x, c.bps, 10000), c.max)
TfExcluded(c, x) == x -- TfFee(c, x)
(* y is the smallest amount whose fee-reduced value is `need' (y - Fee(y) is non-decreasing in y) *)
TfMinimalFor(c, y, need) ==
  /\ TfExcluded(c, y) \doteq need
  /\ (y \doteq 0) \/ (TfExcluded(c, y -- 1) \prec need)
TfExclOK(c, x, r) == r.fee \doteq TfFee(c, x) /\ (r.amount ++ r.fee) \doteq x
TfInclOK(c, need, r) ==
  IF need \doteq 0 THEN r.amount \doteq 0 /\ r.fee \doteq 0
  ELSE TfMinimalFor(c, r.amount, need) /\ r.fee \doteq TfFee(c, r.amount)
=============================================================================
