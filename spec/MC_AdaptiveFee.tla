--------------------------- MODULE MC_AdaptiveFee ---------------------------
EXTENDS AdaptiveFee
MCTMin == -6
(* liquidity layouts over ticks -6..5: everywhere; a gap in the middle; more at the edges; none below zero.
   tick_group_size divides tick_spacing (enforced when an adaptive fee tier is created), so every
   initializable tick lies on a tick-group boundary: liquidity changes only at multiples of GS.       *)
MCLayouts == { [t \in -6..5 |-> 1],
               [t \in -6..5 |-> IF t \in -2..1 THEN 0 ELSE 1],
               [t \in -6..5 |-> IF t < -4 \/ t >= 2 THEN 2 ELSE 1],
               [t \in -6..5 |-> IF t < 0 THEN 0 ELSE 1] }
ASSUME \A l \in MCLayouts : \A t \in -5..5 : l[t] # l[t - 1] => t % GS = 0
=============================================================================
