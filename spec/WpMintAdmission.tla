--------------------------- MODULE WpMintAdmission ---------------------------
(* C19: which token mints a pool or reward may be created over (declarative table).
   m = [prog, exts (extension type numbers in TLV order), freeze ("none" or a key), defaultState, tlvOk, native];
   badged = a token badge issued for this config and this mint exists (program-owned account).   *)
EXTENDS Integers, Sequences, FiniteSets
AllowedExt == {1, 10, 19, 18, 25, 4, 16}     \* transfer fee, interest bearing, token metadata, metadata pointer, scaled UI amount, confidential transfer (+ fee)
BadgeGated == {12, 14, 3, 6, 26}             \* permanent delegate, transfer hook, mint close authority, default account state, pausable
ExtSet(m) == {m.exts[i] : i \in DOMAIN m.exts}
Admitted(m, badged) ==
  \/ m.prog = "spl"
  \/ /\ m.prog = "t22"
     /\ ~m.native
     /\ m.tlvOk
     /\ ExtSet(m) \subseteq (AllowedExt \cup BadgeGated)            \* non-transferable, account-level, group, unknown ... never
     /\ (m.freeze # "none" \/ ExtSet(m) \cap BadgeGated # {}) => badged
     /\ (6 \in ExtSet(m) /\ m.defaultState # 1) => m.freeze # "none"   \* non-default account state needs a freeze authority to thaw
=============================================================================
