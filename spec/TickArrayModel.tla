--------------------------- MODULE TickArrayModel ---------------------------
(* C13 (G): the abstract tick array over the boundary-representative slot set
   S = {0, 1, 62, 63, 64, 65, 86, 87} (first, second, around the 64-bit bitmap word boundary,
   last two).  A slot holds nothing (0) or one of two payloads (1, 2); an update initializes,
   modifies or de-initializes a slot.  TLC explores the model completely (3^8 contents) and prints,
   for every reachable content, the shortest update path that reaches it; the harness replays each
   path - and every update and query out of the reached content - into the four implementations.
   `path' is a history variable hidden from the fingerprint by the VIEW.                        *)
EXTENDS Integers, Sequences, TLC, Json

N == 8
VARIABLES content, path
Init == content = [i \in 1..N |-> 0] /\ path = <<>>
Set(i, v) == /\ content[i] # v
             /\ content' = [content EXCEPT ![i] = v]
             /\ path' = Append(path, <<i, v>>)
Next == \E i \in 1..N, v \in 0..2 : Set(i, v)
Spec == Init /\ [][Next]_<<content, path>>
view == content
Emit == PrintT("REPLAY " \o ToJson(path))
TypeOK == content \in [1..N -> 0..2]
=============================================================================
