------------------------------ MODULE EscrowInd ------------------------------
(* Wider specification, W5, at design level: the rent escrow of dynamic tick arrays is an INDUCTIVE invariant of the
   rules by which lamports move between positions and tick arrays.  Apalache checks  Init => IndInv,
   IndInv /\ Next => IndInv'  and  IndInv => RentExempt  symbolically: for every tick rent R > 0, every base rent of a
   position / an array, every assignment of ranges over the arrays and every mix of fixed and dynamic arrays
   (instance: 6 ticks in 3 arrays of 2, 2 positions - with 8 ticks / 4 arrays / 3 positions the inductive step did not finish in 90 minutes).

   The rules (manager/tick_array_manager.rs, pinocchio/ported/manager_tick_array_manager.rs):
     open             the position account is funded with its own rent plus the rent of TWO ticks;
     first deposit    (liquidity 0 -> positive) one tick rent goes from the position to the array holding the lower bound
                      and one to the array holding the upper bound - to DYNAMIC arrays only;
     last withdrawal  (positive -> 0) the same amounts come back;
     reposition       last withdrawal from the old range (if it had liquidity), range replaced, first deposit into the new;
     reset range      only without liquidity; close: only without liquidity, everything goes to the receiver.
   Assumptions (true of the harness worlds, see W5 in WpTrace): accounts are created and funded by these rules only - no donations,
   no pre-funded accounts, closed accounts pay out to wallets, a constant Rent sysvar, no position older than the collection of tick rent.
   A dynamic array needs 112 bytes (R lamports of rent) per INITIALIZED tick; a tick is initialized exactly while some
   position with liquidity is bounded by it.  RentExempt: what an array holds always covers its initialized ticks -
   several positions sharing a tick over-fund it, nobody under-funds it.                                              *)
EXTENDS Integers, FiniteSets, Apalache

CONSTANTS
  \* @type: Set(Int);
  Ticks,
  \* @type: Set(Int);
  PosIds,
  \* @type: Int;
  R,
  \* @type: Int;
  PBase,
  \* @type: Int;
  ABase

VARIABLES
  \* @type: Int -> { open: Bool, lo: Int, up: Int, has: Bool, lam: Int };
  pos,
  \* @type: Int -> { exists: Bool, dyn: Bool, lam: Int };
  arr

ConstInit == Ticks = -2..3 /\ PosIds = 1..2 /\ R \in Nat /\ R > 0 /\ PBase \in Nat /\ ABase \in Nat

Arrays == {-1, 0, 1}                    \* two ticks per array: array a holds ticks 2a and 2a + 1
ArrOf(t) == IF t >= 0 THEN t \div 2 ELSE 0 - ((1 - t) \div 2)

\* the tick rent that goes with tick t: R if t lies in an existing DYNAMIC array, nothing otherwise
\* (written without multiplication by the symbolic R: everything stays linear integer arithmetic for the solver)
Dyn(t) == IF arr[ArrOf(t)].exists /\ arr[ArrOf(t)].dyn THEN R ELSE 0

\* R x number of (position with liquidity, bound) pairs whose bound lies in array a
\* @type: (Int) => Int;
Pairs(a) ==
  ApaFoldSet(LAMBDA acc, i : acc + (IF pos[i].open /\ pos[i].has /\ ArrOf(pos[i].lo) = a THEN R ELSE 0)
                                 + (IF pos[i].open /\ pos[i].has /\ ArrOf(pos[i].up) = a THEN R ELSE 0), 0, PosIds)
\* R x number of initialized ticks of array a
\* @type: (Int) => Int;
Inits(a) ==
  ApaFoldSet(LAMBDA acc, t : acc + (IF ArrOf(t) = a /\ (\E i \in PosIds : pos[i].open /\ pos[i].has /\ (pos[i].lo = t \/ pos[i].up = t)) THEN R ELSE 0), 0, Ticks)

TypeOK ==
  /\ DOMAIN pos = PosIds /\ DOMAIN arr = Arrays
  /\ \A i \in PosIds : pos[i].lo \in Ticks /\ pos[i].up \in Ticks /\ pos[i].lo < pos[i].up /\ (~pos[i].open => ~pos[i].has /\ pos[i].lam = 0)
  \* a position with liquidity has both its arrays
  /\ \A i \in PosIds : (pos[i].open /\ pos[i].has) => (arr[ArrOf(pos[i].lo)].exists /\ arr[ArrOf(pos[i].up)].exists)

PositionHoldsIdleRent ==
  \A i \in PosIds : pos[i].open => pos[i].lam = PBase + R + R - (IF pos[i].has THEN Dyn(pos[i].lo) + Dyn(pos[i].up) ELSE 0)
ArrayHoldsRentInUse ==
  \A a \in Arrays : (arr[a].exists /\ arr[a].dyn) => arr[a].lam = ABase + Pairs(a)
IndInv == TypeOK /\ PositionHoldsIdleRent /\ ArrayHoldsRentInUse

RentExempt == \A a \in Arrays : (arr[a].exists /\ arr[a].dyn) => arr[a].lam >= ABase + Inits(a)

Init ==
  /\ pos = [i \in PosIds |-> [open |-> FALSE, lo |-> -2, up |-> 3, has |-> FALSE, lam |-> 0]]
  /\ arr = [a \in Arrays |-> [exists |-> FALSE, dyn |-> FALSE, lam |-> 0]]

InitArray(a, d) ==
  /\ ~arr[a].exists
  /\ arr' = [arr EXCEPT ![a] = [exists |-> TRUE, dyn |-> d, lam |-> ABase]]
  /\ UNCHANGED pos

Open(i, lo, up) ==
  /\ ~pos[i].open /\ lo < up
  /\ pos' = [pos EXCEPT ![i] = [open |-> TRUE, lo |-> lo, up |-> up, has |-> FALSE, lam |-> PBase + R + R]]
  /\ UNCHANGED arr

\* lamports an array gains (sign +1) or loses (-1) when position bounds (lo, up) are funded / released
Moved(a, lo, up) == (IF ArrOf(lo) = a THEN R ELSE 0) + (IF ArrOf(up) = a THEN R ELSE 0)

FirstDeposit(i) ==
  LET p == pos[i] IN
  /\ p.open /\ ~p.has /\ arr[ArrOf(p.lo)].exists /\ arr[ArrOf(p.up)].exists
  /\ pos' = [pos EXCEPT ![i] = [open |-> TRUE, lo |-> p.lo, up |-> p.up, has |-> TRUE, lam |-> p.lam - (Dyn(p.lo) + Dyn(p.up))]]
  /\ arr' = [a \in Arrays |-> IF arr[a].exists /\ arr[a].dyn THEN [exists |-> TRUE, dyn |-> TRUE, lam |-> arr[a].lam + Moved(a, p.lo, p.up)] ELSE arr[a]]

LastWithdrawal(i) ==
  LET p == pos[i] IN
  /\ p.open /\ p.has
  /\ pos' = [pos EXCEPT ![i] = [open |-> TRUE, lo |-> p.lo, up |-> p.up, has |-> FALSE, lam |-> p.lam + (Dyn(p.lo) + Dyn(p.up))]]
  /\ arr' = [a \in Arrays |-> IF arr[a].exists /\ arr[a].dyn THEN [exists |-> TRUE, dyn |-> TRUE, lam |-> arr[a].lam - Moved(a, p.lo, p.up)] ELSE arr[a]]

ResetRange(i, lo, up) ==
  /\ pos[i].open /\ ~pos[i].has /\ lo < up
  /\ pos' = [pos EXCEPT ![i] = [open |-> TRUE, lo |-> lo, up |-> up, has |-> FALSE, lam |-> pos[i].lam]]
  /\ UNCHANGED arr

Reposition(i, lo, up) ==
  LET p    == pos[i]
      \* the old range is released only if it had liquidity
      back == IF p.has THEN Dyn(p.lo) + Dyn(p.up) ELSE 0
  IN
  /\ p.open /\ lo < up /\ arr[ArrOf(lo)].exists /\ arr[ArrOf(up)].exists
  /\ pos' = [pos EXCEPT ![i] = [open |-> TRUE, lo |-> lo, up |-> up, has |-> TRUE,
                                 lam |-> p.lam + back - (Dyn(lo) + Dyn(up))]]
  /\ arr' = [a \in Arrays |-> IF arr[a].exists /\ arr[a].dyn
                              THEN [exists |-> TRUE, dyn |-> TRUE, lam |-> arr[a].lam - (IF p.has THEN Moved(a, p.lo, p.up) ELSE 0) + Moved(a, lo, up)]
                              ELSE arr[a]]

Close(i) ==
  /\ pos[i].open /\ ~pos[i].has
  /\ pos' = [pos EXCEPT ![i] = [open |-> FALSE, lo |-> pos[i].lo, up |-> pos[i].up, has |-> FALSE, lam |-> 0]]
  /\ UNCHANGED arr

Next ==
  \/ \E a \in Arrays, d \in BOOLEAN : InitArray(a, d)
  \/ \E i \in PosIds, lo \in Ticks, up \in Ticks : Open(i, lo, up) \/ ResetRange(i, lo, up) \/ Reposition(i, lo, up)
  \/ \E i \in PosIds : FirstDeposit(i) \/ LastWithdrawal(i) \/ Close(i)

IndInit ==
  /\ pos = Gen(2)
  /\ arr = Gen(3)
  /\ IndInv
=============================================================================
