SPECIFICATION Spec
CONSTANTS
  QBits = 4
  WrapBits = 12
  AmtBits = 10
  FeeDen = 1000000
  ProtoDen = 10000
  GS = 2
  U = 2
  TMin <- MCTMin
  TMax = 6
  Scale = 10
  MaxAccs = {12}
  Factors = {0, 4}
  Static = 3
  Den = 100
  Hard = 30
  VolRefs = {0, 7}
  Layouts <- MCLayouts
CHECK_DEADLOCK FALSE
INVARIANT EveryGroupChargedItsRate
INVARIANT AccumulatorCapped
INVARIANT StoredAccumulator
INVARIANT PriceWithinLimit
