package verifbig;
import tlc2.overrides.ITLCOverrides;
public class Overrides implements ITLCOverrides {
    @SuppressWarnings("rawtypes")
    @Override
    public Class[] get() { return new Class[] { BigIntOverrides.class }; }
}
