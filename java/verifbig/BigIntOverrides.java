package verifbig;

import java.math.BigInteger;
import tlc2.overrides.TLAPlusOperator;
import tlc2.value.impl.BoolValue;
import tlc2.value.impl.IntValue;
import tlc2.value.impl.StringValue;
import tlc2.value.impl.Value;

/** BigInteger-backed evaluation of the operators of module BigInt.
 *  Canonical form: a number that fits in 32-bit signed int is an IntValue, otherwise a decimal StringValue. */
public class BigIntOverrides {
    private static final BigInteger IMIN = BigInteger.valueOf(Integer.MIN_VALUE);
    private static final BigInteger IMAX = BigInteger.valueOf(Integer.MAX_VALUE);

    static BigInteger big(Value v) {
        if (v instanceof IntValue) return BigInteger.valueOf(((IntValue) v).val);
        if (v instanceof StringValue) return new BigInteger(((StringValue) v).val.toString());
        throw new IllegalArgumentException("BigInt: not a number: " + v);
    }
    static Value norm(BigInteger b) {
        if (b.compareTo(IMIN) >= 0 && b.compareTo(IMAX) <= 0) return IntValue.gen(b.intValue());
        return new StringValue(b.toString());
    }
    @TLAPlusOperator(identifier = "++", module = "BigInt", warn = false)
    public static Value add(Value a, Value b) { return norm(big(a).add(big(b))); }
    @TLAPlusOperator(identifier = "--", module = "BigInt", warn = false)
    public static Value sub(Value a, Value b) { return norm(big(a).subtract(big(b))); }
    @TLAPlusOperator(identifier = "\\otimes", module = "BigInt", warn = false)
    public static Value mul(Value a, Value b) { return norm(big(a).multiply(big(b))); }
    @TLAPlusOperator(identifier = "BDiv", module = "BigInt", warn = false)
    public static Value div(Value a, Value b) {
        BigInteger[] qr = big(a).divideAndRemainder(big(b));
        BigInteger q = qr[0];
        if (qr[1].signum() != 0 && (qr[1].signum() != big(b).signum())) q = q.subtract(BigInteger.ONE);
        return norm(q);
    }
    @TLAPlusOperator(identifier = "BMod", module = "BigInt", warn = false)
    public static Value mod(Value a, Value b) { return norm(big(a).mod(big(b))); }
    @TLAPlusOperator(identifier = "\\preceq", module = "BigInt", warn = false)
    public static Value le(Value a, Value b) { return big(a).compareTo(big(b)) <= 0 ? BoolValue.ValTrue : BoolValue.ValFalse; }
    @TLAPlusOperator(identifier = "\\prec", module = "BigInt", warn = false)
    public static Value lt(Value a, Value b) { return big(a).compareTo(big(b)) < 0 ? BoolValue.ValTrue : BoolValue.ValFalse; }
    @TLAPlusOperator(identifier = "\\doteq", module = "BigInt", warn = false)
    public static Value eq(Value a, Value b) { return big(a).compareTo(big(b)) == 0 ? BoolValue.ValTrue : BoolValue.ValFalse; }
    @TLAPlusOperator(identifier = "BMin", module = "BigInt", warn = false)
    public static Value min(Value a, Value b) { return big(a).compareTo(big(b)) <= 0 ? norm(big(a)) : norm(big(b)); }
    @TLAPlusOperator(identifier = "BMax", module = "BigInt", warn = false)
    public static Value max(Value a, Value b) { return big(a).compareTo(big(b)) <= 0 ? norm(big(b)) : norm(big(a)); }
    @TLAPlusOperator(identifier = "BAbs", module = "BigInt", warn = false)
    public static Value abs(Value a) { return norm(big(a).abs()); }
    @TLAPlusOperator(identifier = "CeilDiv", module = "BigInt", warn = false)
    public static Value ceilDiv(Value a, Value b) {
        BigInteger[] qr = big(a).divideAndRemainder(big(b));
        return norm(qr[1].signum() > 0 ? qr[0].add(BigInteger.ONE) : qr[0]);
    }
    @TLAPlusOperator(identifier = "MulDivFloor", module = "BigInt", warn = false)
    public static Value mulDivFloor(Value a, Value b, Value c) { return norm(big(a).multiply(big(b)).divide(big(c))); }
    @TLAPlusOperator(identifier = "MulDivCeil", module = "BigInt", warn = false)
    public static Value mulDivCeil(Value a, Value b, Value c) {
        BigInteger[] qr = big(a).multiply(big(b)).divideAndRemainder(big(c));
        return norm(qr[1].signum() > 0 ? qr[0].add(BigInteger.ONE) : qr[0]);
    }
    @TLAPlusOperator(identifier = "Wrap", module = "BigInt", warn = false)
    public static Value wrap(Value x, Value bits) { return norm(big(x).mod(BigInteger.ONE.shiftLeft(((IntValue) bits).val))); }
    @TLAPlusOperator(identifier = "BPow2", module = "BigInt", warn = false)
    public static Value pow2(Value n) { return norm(BigInteger.ONE.shiftLeft(((IntValue) n).val)); }
}
