#!/bin/bash
# runs every check of a tier with a seed, one after the other; prints one line per check (used with `vp run` to look for
# false alarms on the unchanged tree).  usage: tools/sweep.sh <tier> <seed> [ids...]
cd "$(dirname "$0")/.."
TIER=$1; SEED=$2; shift 2
IDS=${@:-C01 C02 C03 C04 C05 C06 C07 C08 C09 C10 C11 C12 C13 C14 C15 C16 C17 C18 C19 C20}
mkdir -p work/sweep
for id in $IDS; do
  s=$(date +%s)
  ./check $id --tier $TIER --seed $SEED > work/sweep/$TIER-$SEED-$id.out 2> work/sweep/$TIER-$SEED-$id.err
  rc=$?
  echo "$id tier=$TIER seed=$SEED rc=$rc wall=$(( $(date +%s) - s ))s $(grep -h 'VIOLATION\|TOOL-ERROR' work/sweep/$TIER-$SEED-$id.out | head -2 | cut -c1-300)"
  [ $rc != 0 ] && tail -5 work/sweep/$TIER-$SEED-$id.err | cut -c1-1500
done
