#!/bin/bash
# Runs checks against a seeded change WITHOUT touching /repo: a scratch worktree of /repo + a copy of the harness bound to it.
# usage: mutant_run.sh <seed-id> <check-id> [<check-id>...]   (env TIER=quick|thorough)
# Output: /tmp/mut/<seed-id>/result.txt ; the scratch tree is removed afterwards unless KEEP=1.
set -u
SEED=$1; shift
D=${MUTDIR:-/tmp/mut}/$SEED
rm -rf $D/harness $D/out; mkdir -p $D/out
git -C /repo worktree remove --force $D/repo 2>/dev/null; rm -rf $D/repo
git -C /repo worktree add -q --detach $D/repo HEAD || exit 2
(cd $D/repo && git apply /verif/seeded/$SEED/patch.diff) || { echo "patch does not apply" > $D/result.txt; exit 2; }
mkdir -p $D/harness && (cd ${VROOT:-/verif}/harness && tar cf - --exclude=target .) | (cd $D/harness && tar xf -)
sed -i "s#/repo/programs/whirlpool#$D/repo/programs/whirlpool#g; s#/repo/rust-sdk#$D/repo/rust-sdk#g" $D/harness/Cargo.toml $D/harness/build.rs
# reuse the warm dependency build of the main harness
if [ -d ${VROOT:-/verif}/harness/target ]; then cp -r ${VROOT:-/verif}/harness/target $D/harness/target; fi
: > $D/result.txt
for C in "$@"; do
  (cd ${VROOT:-/verif} && VERIF_REPO=$D/repo VERIF_HARNESS=$D/harness VERIF_OUT=$D/out ./check $C --tier ${TIER:-quick} > $D/out/$C.log 2>&1; echo "seed=$SEED check=$C exit=$? $(grep -c ^VIOLATION $D/out/$C.log) violations; $(grep -m1 -A1 ^VIOLATION $D/out/$C.log | tail -1 | cut -c1-300)" >> $D/result.txt)
done
cat $D/result.txt
if [ "${KEEP:-0}" != "1" ]; then git -C /repo worktree remove --force $D/repo; rm -rf $D/harness $D/repo; fi
