#!/bin/bash
# usage: tlc_trace.sh <trace.ndjson> <cfg> [metadir]
TRACE_FILE=$(readlink -f $1); CFG=$2; META=${3:-/verif/work/tlcmeta.$$}
cd /verif/spec
export TRACE=$TRACE_FILE
export JAVA_TOOL_OPTIONS="-Xss1g -Dtlc2.tool.queue.IStateQueue=StateDeque"
exec java -Xmx${TLC_XMX:-6g} -XX:+UseParallelGC -Dtlc2.overrides.TLCOverrides=tlc2.overrides.TLCOverrides:verifbig.Overrides \
  -cp /verif/java/classes:/opt/veriftools/tla/tla2tools.jar:/opt/veriftools/tla/CommunityModules-deps.jar tlc2.TLC \
  -workers 1 -metadir $META -cleanup -noGenerateSpecTE -config $CFG WpTrace.tla
