"""Per-property check plans: which drivers record executions of the real program, which TLC models
are checked exhaustively, and which predicate groups of the trace specification are enforced."""

COMMON_ASSUMPTIONS = [
    "native x86-64 execution of the program's Rust source (overflow-checks off, as in the release profile) instead of SBF",
    "nanosvm harness emulates loader serialization, CPI privilege rules and the System program; SPL Token 8.0.0 / Token-2022 8.0.1 / ATA 7.0.0 processors are the real crates",
    "TLC + the BigInt Java override (java.math.BigInteger) evaluate the specification",
    "Metaplex metadata CPIs are a recording stub",
]


def hist_jobs(prefix, seed, shards, histories, steps, tokens="spl", extra=None):
    jobs = []
    for s in range(shards):
        args = ["hist", "--seed", str(seed * 1000 + s), "--histories", str(histories), "--steps", str(steps), "--tokens", tokens]
        if extra:
            args += extra
        jobs.append({"name": f"{prefix}{s}", "args": args})
    return jobs


def mc(name, tier, module="MC_Whirlpool"):
    """toy-scale instances (see the MC_*.cfg files)"""
    cfg = f"{name}_q.cfg" if tier == "quick" else f"{name}.cfg"
    return {"name": name, "module": module, "cfg": cfg, "timeout": 7200}


def fn_jobs(what, tier, seed, n_q, n_t, shards_q=4, shards_t=16, extra=None):
    jobs = []
    shards, n = (shards_q, n_q) if tier == "quick" else (shards_t, n_t)
    for s in range(shards):
        args = ["fn", "--what", what, "--n", str(n), "--seed", str(seed * 1000 + s)] + (extra or [])
        jobs.append({"name": f"fn_{what}_{s}", "args": args, "module": "WpFn"})
    return jobs


INTREE = {"name": "intree_swaps", "kind": "intree", "args": [], "module": "WpFn"}


COV = {"name": "MC_Whirlpool_cov", "module": "MC_Whirlpool", "cfg": "MC_Whirlpool_cov.cfg", "timeout": 600, "workers": 1}
# vacuity guard of the fee side of the toy instance: fees are credited (across the accumulator's wrap-around), protocol fees accrue, both are paid out
FEES_COV = {"name": "MC_Fees_cov", "module": "MC_Whirlpool", "cfg": "MC_Fees_cov.cfg", "timeout": 600, "workers": 1}
# the toy instance with reset_position_range / reposition_liquidity_v2 added (module MC_Rerange), and its vacuity guard
RERANGE_COV = {"name": "MC_Rerange_cov", "module": "MC_Rerange", "cfg": "MC_Rerange_cov.cfg", "timeout": 900, "workers": 1}


def deep_walks(tier, seed):
    """long random walks (depth 40) through a larger toy instance (7 ticks, 3 positions, every action incl. re-ranging and explicit price
    limits) under all invariants at once: the exhaustive instances stop after 5-6 operations"""
    # (about 4 s per walk and worker: every step enumerates ~2 500 successor states; `num` is per worker)
    q = tier == "quick"
    return {"name": "MC_Deep", "module": "MC_Deep", "cfg": "MC_Deep.cfg", "simulate": "num=5" if q else "num=60", "depth": 40, "seed": seed,
            "workers": 2 if q else 6, "timeout": 600 if q else 5400}


def rerange(tier, ledger=False):
    n = "MC_RerangeLedger" if ledger else "MC_Rerange"
    return {"name": n, "module": "MC_Rerange", "cfg": f"{n}_q.cfg" if tier == "quick" else f"{n}.cfg", "timeout": 7200}


def hist_plan(active, tier, seed, tokens=("spl",), must=None, explanation="", shards_q=6, shards_t=16, models=("MC_Whirlpool",)):
    drivers = []
    for tk in tokens:
        if tier == "quick":
            drivers += hist_jobs(f"hist_{tk}_", seed, shards_q, 4, 150, tk)
        else:
            drivers += hist_jobs(f"hist_{tk}_", seed, shards_t, 40, 300, tk)
    return {"active": active, "drivers": drivers, "models": [mc(m, tier) for m in models] + [COV], "must_exercise": must or {}, "explanation": explanation}


def C01(tier, seed):
    p = hist_plan(["C01"], tier, seed, models=("MC_Whirlpool", "MC_Gain"), must={"swap": 50, "decrease_liquidity": 20, "collect_fees": 20, "collect_protocol_fees": 5},
                  explanation="Solvent + NoFreeLunch evaluated after every instruction of recorded random histories of the real program "
                              "(incl. drain sequences whose every call must succeed); the same invariants model-checked on the toy instance, "
                              "also with the two re-ranging instructions added (MC_Rerange)")
    p["models"] += [rerange(tier), FEES_COV, RERANGE_COV, deep_walks(tier, seed)]
    return p


def C03(tier, seed):
    p = hist_plan(["C03"], tier, seed, tokens=("spl", "t22fee"), must={"swap": 50, "swap_v2": 50, "two_hop_swap": 10, "two_hop_swap_v2": 10},
                  explanation="SwapBounds on balance deltas of every successful swap; two-hop swaps: per-leg price direction / bounds / limit, amount used in full unless the specified "
                              "leg's limit was reached, thresholds on realised amounts; toy instance: SwapBounds as invariant over all interleavings")
    # the toy instance with explicit price limits (inside a tick, exactly on a tick) and real slippage thresholds
    p["models"] += [{"name": "MC_Limits", "module": "MC_Whirlpool", "cfg": "MC_Limits_q.cfg" if tier == "quick" else "MC_Limits.cfg", "timeout": 7200},
                    {"name": "MC_Limits_cov", "module": "MC_Whirlpool", "cfg": "MC_Limits_cov.cfg", "timeout": 900, "workers": 1}]
    shards, worlds, attempts = (2, 3, 120) if tier == "quick" else (8, 12, 400)
    for s_ in range(shards):
        p["drivers"].append({"name": f"twohop_{s_}", "args": ["twohop", "--seed", str(seed * 100 + 50 + s_), "--worlds", str(worlds), "--attempts", str(attempts)]})
    return p


def C05(tier, seed):
    p = _C05(tier, seed)
    # adaptive-fee pools, and the account-substitution probes of the matrix driver (a tick array that does not hold the
    # position's bound must not be written)
    p["drivers"] += hist_jobs("hist_af_", seed, 1 if tier == "quick" else 4, 4 if tier == "quick" else 40, 150 if tier == "quick" else 300, "spl", ["--adaptive", "1"])
    p["drivers"] += matrix_jobs("subst_", tier, seed, "0", "1", 10, 1000, shards_q=1, shards_t=2)
    return p


def _C05(tier, seed):
    p = hist_plan(["C05"], tier, seed, tokens=("spl", "t22"), must={"swap": 50, "increase_liquidity": 20, "decrease_liquidity": 20},
                  explanation="LiqSum/TickSums/TickInit on the projected state after every instruction; toy instance: same invariants; thorough tier: Apalache proves the "
                              "invariants inductive over the liquidity rules for unbounded integer magnitudes (LiqInd.tla: base case + inductive step)")
    p["models"] += [rerange(tier), RERANGE_COV]
    if tier == "thorough":
        p["apalache"] = [{"name": "LiqInd", "file": "LiqInd", "inv": "IndInv", "init": "Init", "indinit": "IndInit", "cinit": "ConstInit", "timeout": 7200}]
    return p


def C06(tier, seed):
    return hist_plan(["C06"], tier, seed, tokens=("spl", "t22fee"), shards_q=4, must={"swap": 50, "swap_v2": 50, "collect_protocol_fees": 5},
                     explanation="per-step fee formula, protocol cut, growth fold, trader/vault deltas and Traded event of every swap; protocol fee collection")


def C08(tier, seed):
    return hist_plan(["C08"], tier, seed, tokens=("spl", "t22"), must={"increase_liquidity": 20, "decrease_liquidity": 20, "increase_liquidity_v2": 20, "decrease_liquidity_v2": 20, "increase_liquidity_by_token_amounts_v2": 10, "reposition_liquidity_v2": 3},
                     explanation="user/vault deltas of every increase/decrease equal the exact TokenDeltas rounded up/down")


def C02(tier, seed):
    p = hist_plan(["C02"], tier, seed, shards_q=3, shards_t=8, must={"swap": 30},
                  explanation="StepOK(x, Step(x)) for every input tuple of the toy domain (MC_SwapStep, exhaustive); StepOK on every successful "
                              "compute_swap call of a boundary grid (incl. budgets equal to / one off the amount that reaches the target) + random inputs, "
                              "and on every swap step recorded in random histories")
    p["models"] = [mc("MC_SwapStep", tier, "MC_SwapStep")]
    p["drivers"] += fn_jobs("steps", tier, seed, 15000, 200000)
    p["drivers"].append(dict(INTREE))    # every swap step the repository's own tests execute
    return p


def C09(tier, seed):
    if tier == "quick":
        jobs = fn_jobs("ticks", tier, seed, 20000, 0, shards_q=2, extra=["--stride", "16"])
        ex = False
    else:
        # complete enumeration of the tick range in 16 contiguous shards (+ random interior price queries)
        jobs = []
        lo, hi = -443636, 443636
        step = (hi - lo) // 16 + 1
        for s in range(16):
            a, b = lo + s * step, min(hi, lo + (s + 1) * step)   # shards overlap by one tick so every consecutive pair is checked
            jobs.append({"name": f"fn_ticks_{s}", "args": ["fn", "--what", "ticks", "--stride", "1", "--lo", str(a), "--hi", str(b), "--n", "100000", "--seed", str(seed * 1000 + s)], "module": "WpFn"})
        ex = True
    return {"active": ["C09"], "drivers": jobs, "models": [], "exhaustive": ex,
            "explanation": "TickMathOK over the recorded tick->price table (strictly increasing, endpoints, ratio within 2^-32 of sqrt(1.0001)) and the inverse contract "
                           "at every recorded tick price, one unit either side, MIN/MAX and random interior prices; thorough tier enumerates every tick"}


def C07(tier, seed):
    p = _C07(tier, seed)
    p["models"] += [rerange(tier, ledger=True), FEES_COV, RERANGE_COV]
    return p


def _C07(tier, seed):
    return hist_plan(["C07"], tier, seed, tokens=("spl", "t22"), models=("MC_Ledger",),
                     must={"swap": 50, "update_fees_and_rewards": 5, "decrease_liquidity": 20, "increase_liquidity": 20},
                     explanation="ghost share ledgers: per swap step the exact pro-rata share (2^128-scaled interval) of every position whose range contains the segment tick; "
                                 "credited fees (increments of owed) never exceed the share and fall short by at most one unit per step/credit; accumulators start anywhere in u128; "
                                 "toy instance: FeeUpper/FeeLower with accumulators started just below wrap-around, also across reset_position_range / reposition_liquidity_v2 (MC_RerangeLedger); "
                                 "a vacuity guard requires that fees are really credited and paid out in the toy instance")


def C11(tier, seed):
    drivers = []
    for tk in ("spl", "t22", "t22fee"):
        if tier == "quick":
            drivers += hist_jobs(f"hist_rw_{tk}_", seed, 4 if tk != "t22fee" else 2, 4, 200, tk, ["--rewards", "1"])
        else:
            drivers += hist_jobs(f"hist_rw_{tk}_", seed, 8, 40, 300, tk, ["--rewards", "1"])
    # rewards on adaptive-fee pools as well
    drivers += hist_jobs("hist_rw_af_", seed, 1 if tier == "quick" else 4, 4 if tier == "quick" else 40, 200 if tier == "quick" else 300, "spl", ["--rewards", "1", "--adaptive", "1"])
    models = [mc("MC_Rewards", tier, "MC_Rewards"), {"name": "MC_Rewards_cov", "module": "MC_Rewards", "cfg": "MC_Rewards_cov.cfg", "timeout": 600, "workers": 1}]
    return {"active": ["C11"], "drivers": drivers, "models": models,
            "must_exercise": {"set_reward_emissions": 5, "collect_reward": 5, "initialize_reward": 3, "update_fees_and_rewards": 10, "swap": 20},
            "explanation": "AccrueRewards (floor(dt*emissions/liquidity), nothing at zero liquidity / uninitialized / 128-bit overflow, timestamp monotone) checked on every instruction; "
                           "reward share ledgers (upper bound, bounded-rounding lower bound, dropped credits relax the lower bound only); collect = min(owed, vault); "
                           "set-emissions settles at the old rate and needs one day of funding"}


def matrix_jobs(prefix, tier, seed, auth, subst, maxsubst_q, maxsubst_t, shards_q=2, shards_t=4):
    jobs = []
    shards, ms = (shards_q, maxsubst_q) if tier == "quick" else (shards_t, maxsubst_t)
    for s in range(shards):
        jobs.append({"name": f"{prefix}{s}", "args": ["matrix", "--seed", str(seed * 100 + s), "--auth", auth, "--subst", subst, "--maxsubst", str(ms)]})
    return jobs


def C04(tier, seed):
    drivers = matrix_jobs("auth_", tier, seed, "1", "0", 0, 0, shards_q=2, shards_t=8)
    drivers += hist_jobs("hist_spl_", seed, 2 if tier == "quick" else 8, 4 if tier == "quick" else 40, 150, "spl", ["--rewards", "1"])
    return {"active": ["C04"], "drivers": drivers, "models": [mc("MC_Whirlpool", tier), COV], "exhaustive": True,
            "must_exercise": {"set_fee_rate": 1, "collect_protocol_fees": 1, "set_reward_emissions": 1, "close_position": 1, "lock_position": 1, "transfer_locked_position": 1,
                              "set_fee_rate_by_delegated_fee_authority": 1, "delete_token_badge": 1, "reposition_liquidity_v2": 1, "delete_position_bundle": 1},
            "explanation": "authority matrix: every privileged instruction of a prepared world (two configs, adaptive tiers with equal index, badges, bundles, locked positions) is probed, on copies "
                           "of the bank, with the right key unsigned, other users / other authorities of either config signed, delegates with amount 0/1/2 and an emptied token account; "
                           "TLC requires every successful instruction (probe or not) to satisfy the specification's Guard (authority recorded in the abstract state + signer flag), every base "
                           "instruction to succeed and every failed one to leave the state untouched; toy instance: OwnerSigned action property"}


def C15(tier, seed):
    drivers = matrix_jobs("subst_", tier, seed, "0", "1", 10, 1000, shards_q=3, shards_t=4)
    # two-hop routes in every direction combination, incl. attempts over the same pool / pools that do not share the
    # intermediate mint: a successful two-hop must satisfy TwoHopGuard
    shards, worlds, attempts = (2, 3, 150) if tier == "quick" else (8, 12, 400)
    for s_ in range(shards):
        drivers.append({"name": f"twohop_{s_}", "args": ["twohop", "--seed", str(seed * 100 + 90 + s_), "--worlds", str(worlds), "--attempts", str(attempts)]})
    return {"active": ["C15"], "drivers": drivers, "models": [], "exhaustive": tier != "quick",
            "must_exercise": {"swap": 1, "swap_v2": 1, "two_hop_swap": 1, "two_hop_swap_v2": 1, "collect_reward_v2": 1, "reposition_liquidity_v2": 1, "collect_protocol_fees_v2": 1},
            "explanation": "substitution matrix: for every account slot of every fund-moving / privileged instruction of the prepared world, the account is replaced (one slot at a time, on a copy "
                           "of the bank) by other accounts of the same kind (other pool's vault / tick array / position / oracle, other mint's token account, reward vault of another index, "
                           "other token program, a non-program account); TLC requires every successful probe to satisfy the interface relations of module WpIface (harmless substitutions "
                           "may succeed), failed probes to be atomic, and the unsubstituted instruction to succeed; thorough tier substitutes every candidate"}


def C14(tier, seed):
    drivers = []
    for tk in ("spl", "t22"):
        drivers += hist_jobs(f"hist_af_{tk}_", seed, 4 if tier == "quick" else 8, 5 if tier == "quick" else 40, 200 if tier == "quick" else 300, tk, ["--adaptive", "1"])
    drivers += matrix_jobs("matrix_", tier, seed, "0", "0", 0, 0, shards_q=1, shards_t=1)
    drivers.append(dict(INTREE))     # the adaptive-fee swaps of the repository's own tests
    return {"active": ["C14"], "drivers": drivers, "models": [mc("MC_AdaptiveFee", tier, "MC_AdaptiveFee")],
            "must_exercise": {"swap": 50, "swap_v2": 50},
            "explanation": "adaptive-fee pools with random valid constants: reference update (filter / decay / one-hour reset), accumulator = min(volRef + |ref - group|*10^4, max), "
                           "rate = min(static + ceil(factor*(acc*groupSize)^2/10^13), 10%) required for EVERY tick group each recorded step's price segment spans (declarative, independent "
                           "of the skip optimisation), stored accumulator of the end group or the adjacent one in trade direction, major-swap timestamp, trade-enable time, zero control factor = static"}


def C17(tier, seed):
    jobs = []
    shards, worlds, attempts = (4, 4, 120) if tier == "quick" else (16, 12, 400)
    for s_ in range(shards):
        jobs.append({"name": f"twohop_{s_}", "args": ["twohop", "--seed", str(seed * 100 + s_), "--worlds", str(worlds), "--attempts", str(attempts)]})
    return {"active": ["C17"], "drivers": jobs, "models": [],
            "must_exercise": {"two_hop_swap": 20, "two_hop_swap_v2": 20},
            "explanation": "three pools sharing mints pairwise (static and adaptive fees, SPL and Token-2022): every two-hop attempt (all direction combinations, both modes, price limits on either leg, "
                           "thresholds at the realised amount and one either side, same-pool and mismatching-mint attempts) is also executed on a copy of the bank as its two single swaps; TLC requires, "
                           "for a successful two-hop: both legs succeed alone, intermediate amounts match, every account of the two banks is identical, trader pays leg one / receives leg two / nets zero"}


def C10(tier, seed):
    gen = [{"name": "layouts", "module": "PackagingModel", "cfg": "PackagingModel.cfg"}]
    jobs = []
    if tier == "quick":
        for s_ in range(4):
            jobs.append({"name": f"pack_{s_}", "args": ["pack", "--seed", str(seed * 100 + s_), "--layouts", "@layouts@", "--sample", "60"]})
    else:
        for s_ in range(12):   # every layout exactly once, partitioned over 12 shards
            jobs.append({"name": f"pack_{s_}", "args": ["pack", "--seed", str(seed * 100 + s_), "--layouts", "@layouts@", "--sample", "100000", "--part", f"{s_}/12"], "tlc_timeout": 7200})
    p = {"active": ["C10"], "drivers": jobs, "models": [mc("MC_Whirlpool", tier), COV], "gen": gen, "exhaustive": tier != "quick",
         "must_exercise": {"swap": 50, "swap_v2": 200},
         "explanation": "TLC enumerates all placements of <= 4 initialized ticks over boundary slots of the three arrays a swap uses x direction x start state (on tick / inside / shifted); each world is "
                        "built in three encodings (fixed / dynamic / only arrays holding a tick exist) and the same swaps run under every packaging (v1, v2, permuted, duplicated + supplemental, extra "
                        "supplemental, reversed, truncated, foreign array). TLC requires: crossed ticks = exactly the initialized ticks between start and end tick (over ALL ticks of the pool), once each, "
                        "in order, with the tick's net liquidity; no step jumps an initialized tick; identical outcome for all packagings supplying the window; truncated packagings fail or agree; "
                        "foreign arrays rejected. The path predicate is also evaluated on the swaps of random histories."}
    p["drivers"] += hist_jobs("hist_spl_", seed, 2 if tier == "quick" else 8, 4 if tier == "quick" else 40, 150, "spl")
    # two-hop swaps: a third of the v2 ones are submitted in another packaging (first array repeated in the static slots + the rest in the leg's
    # supplemental slice, or the static slots reversed, per leg) and compared with the canonical packaging of the same two-hop
    shards, worlds, attempts = (2, 4, 150) if tier == "quick" else (8, 12, 400)
    for s_ in range(shards):
        p["drivers"].append({"name": f"twohop_{s_}", "args": ["twohop", "--seed", str(seed * 100 + 30 + s_), "--worlds", str(worlds), "--attempts", str(attempts)]})
    return p


def wider_job(tier, seed):
    """worlds of the wider specification (behaviour beyond the listed properties, see WpTrace): pools that inherit the non-transferable-position
    requirement from token badges, every way of opening a position on them, bundles with metadata, the reward-authority-space migration; the
    property's own predicates are evaluated on these executions like on any other, the wider ones are tallied and reported only"""
    return {"name": "wider", "args": ["wider", "--seed", str(seed * 100 + 91), "--worlds", "2" if tier == "quick" else "12"]}


def C18(tier, seed):
    n = "300" if tier == "quick" else "6000"
    gen = [{"name": "life_paths", "module": "LifecycleModel", "cfg": "LifecycleModel.cfg", "extra": ["-simulate", f"num={n}", "-depth", "12", "-seed", str(seed)]}]
    jobs = []
    shards, sample = (4, 60) if tier == "quick" else (16, 500)
    for s_ in range(shards):
        jobs.append({"name": f"life_{s_}", "args": ["life", "--seed", str(seed * 100 + s_), "--paths", "@life_paths@", "--sample", str(sample)]})
    jobs += hist_jobs("hist_spl_", seed, 2 if tier == "quick" else 8, 4 if tier == "quick" else 40, 150, "spl", ["--rewards", "1"])
    jobs += matrix_jobs("matrix_", tier, seed, "0", "0", 0, 0, shards_q=1, shards_t=1)
    jobs.append({"name": "bundle_sweep", "args": ["life", "--seed", str(seed * 100 + 77), "--sweep", "48" if tier == "quick" else "256"]})
    jobs.append(wider_job(tier, seed))
    return {"active": ["C18"], "drivers": jobs, "gen": gen,
            "models": [{"name": "LifecycleModel", "module": "LifecycleModel", "cfg": "LifecycleModel_mc.cfg", "timeout": 1200}],
            "must_exercise": {"lock_position": 5, "transfer_locked_position": 3, "reset_position_range": 5, "close_position": 5, "open_bundled_position": 3, "close_bundled_position": 3,
                              "reposition_liquidity_v2": 5, "open_position_with_token_extensions": 5},
            "explanation": "TLC model-checks the life-cycle state machine (all operation sequences up to length 7) and generates random behaviours of length 10; each is replayed into the real program "
                           "(plain / metadata / token-extension / bundled positions, ranges incl. bounds derived from the price and the full-range-only pool) and at every state every life-cycle operation "
                           "and a set of invalid opens are also probed on copies; TLC judges each recorded instruction on the REAL logged state: open (one token, no mint authority, valid / derived range), "
                           "close / reset only when empty, checkpoints reset, lock only with liquidity, locked positions untouchable, transfer keeps the lock, bundle bitmap = existing bundled positions"}


def C19(tier, seed):
    gen = [{"name": "mint_cases", "module": "MintAdmissionModel", "cfg": "MintAdmissionModel.cfg"}]
    jobs = []
    shards, sample = (4, 700) if tier == "quick" else (16, 100000)
    for s_ in range(shards):
        jobs.append({"name": f"mints_{s_}", "args": ["mints", "--seed", str(seed * 100 + s_), "--cases", "@mint_cases@", "--sample", str(sample)], "tlc_timeout": 7200})
    jobs += matrix_jobs("matrix_", tier, seed, "0", "0", 0, 0, shards_q=1, shards_t=2)
    jobs += hist_jobs("hist_spl_", seed, 2 if tier == "quick" else 8, 4 if tier == "quick" else 40, 150, "spl")
    jobs += hist_jobs("hist_af_", seed, 1 if tier == "quick" else 4, 4 if tier == "quick" else 40, 150, "t22", ["--adaptive", "1"])
    jobs.append(wider_job(tier, seed))
    return {"active": ["C19"], "drivers": jobs, "gen": gen, "models": [], "exhaustive": tier != "quick",
            "must_exercise": {"initialize_pool_v2": 20, "initialize_reward_v2": 10, "initialize_pool_with_adaptive_fee": 5, "set_fee_rate": 3, "set_protocol_fee_rate": 3, "swap": 20},
            "explanation": "TLC enumerates Token-2022 mint shapes (ordered extension sequences up to length 3 incl. account-level, group and unknown types; freeze authority; default account state; "
                           "truncated TLV; badge present / absent / other config / other mint / not program-owned) and checks the admission table's own sanity; the harness builds each mint as real bytes "
                           "and executes initialize_pool_v2 / initialize_pool_with_adaptive_fee / initialize_reward_v2 (+ v1) for real; TLC requires ok => Admitted (module WpMintAdmission) on the projected "
                           "mint and badge state. ParamsInBounds (rates, price bounds, spacing, canonical mint order, adaptive-constant validity) is evaluated on every projected state of these runs, of the "
                           "setter-bound probes (every setter at bound-1, bound, bound+1, max; every validity rule of the adaptive constants violated in turn) and of random histories that push the price to the bounds"}


def C16(tier, seed):
    drivers = hist_jobs("hist_t22fee_", seed, 5 if tier == "quick" else 16, 4 if tier == "quick" else 40, 200 if tier == "quick" else 300, "t22fee")
    drivers += fn_jobs("tfee", tier, seed, 400, 8000, shards_q=2, shards_t=8)
    return {"active": ["C16"], "drivers": drivers, "models": [mc("MC_TransferFee", tier, "MC_TransferFee")],
            "must_exercise": {"swap_v2": 50, "increase_liquidity_v2": 20, "decrease_liquidity_v2": 20, "increase_liquidity_by_token_amounts_v2": 10, "reposition_liquidity_v2": 3},
            "explanation": "ExclOK/InclOK (smallest fee-included amount, fee adds back, 100% case, epoch selection) on the Anchor and Pinocchio functions over a boundary grid; histories on Token-2022 "
                           "pools with transfer fees where the real Token-2022 processor moves the tokens: vault receives >= curve amount, pays exactly the curve output, requests are the smallest "
                           "fee-included amounts, thresholds/maxima/minima apply to what the user actually pays/receives, event fields equal the amounts moved; toy domain: existence/uniqueness/monotonicity"}


def C12(tier, seed):
    drivers = []
    for tk, rw in (("spl", "0"), ("t22", "1"), ("t22fee", "0")):
        if tier == "quick":
            drivers += hist_jobs(f"dual_{tk}_", seed, 3, 4, 150, tk, ["--dual", "1", "--crosscheck", "3", "--rewards", rw])
        else:
            drivers += hist_jobs(f"dual_{tk}_", seed, 6, 40, 300, tk, ["--dual", "1", "--crosscheck", "3", "--rewards", rw])
    # adaptive-fee pools too (their fee-tier index differs from the tick spacing - two adjacent fields of the pool account)
    drivers += hist_jobs("dual_af_", seed, 2 if tier == "quick" else 6, 4 if tier == "quick" else 40, 150 if tier == "quick" else 300, "t22", ["--dual", "1", "--crosscheck", "3", "--adaptive", "1"])
    drivers += fn_jobs("views", tier, seed, 3000, 100000, shards_q=2, shards_t=8)
    return {"active": ["C12"], "drivers": drivers, "models": [],
            "must_exercise": {"increase_liquidity": 20, "decrease_liquidity": 20, "increase_liquidity_v2": 20, "decrease_liquidity_v2": 20},
            "explanation": "every Pinocchio-served increase/decrease (v1, v2) of recorded histories is also executed, on a copy of the bank, by the Anchor handler "
                           "(dispatcher that bypasses the routing table): return code, every byte of every account and the emitted events must be equal; every third instruction is "
                           "re-run through the real extern-C entrypoint (routing table); getters/setters of the memory-mapped views vs the Anchor serializers; usable-tick lookup vs the spec",
            "assumptions": ["increase_liquidity_by_token_amounts_v2 and reposition_liquidity_v2 have no Anchor handler to compare with (Pinocchio-only); they are covered by the functional checks of C05/C07/C08/C18"]}


def C13(tier, seed):
    gen = [{"name": "ta_paths", "module": "TickArrayModel", "cfg": "TickArrayModel.cfg"}]
    jobs = []
    if tier == "quick":
        for s in range(4):
            jobs.append({"name": f"ta_{s}", "module": "WpTickArray", "args": ["ta", "--seed", str(seed * 100 + s), "--paths", "@ta_paths@", "--sample", "120", "--random", "150"]})
        ex = False
    else:
        # every reachable content of the boundary slot set (all 6561 behaviours), for each of 8 seeds (-> different start index / spacing)
        for s in range(8):
            jobs.append({"name": f"ta_{s}", "module": "WpTickArray", "args": ["ta", "--seed", str(seed * 100 + s), "--paths", "@ta_paths@", "--sample", "100000", "--random", "2500"]})
        ex = True
    # histories of the real program over pools that mix fixed and dynamic arrays: every array stays well formed after every instruction
    for tk in ("spl", "t22"):
        jobs += hist_jobs(f"hist_{tk}_", seed, 2 if tier == "quick" else 8, 4 if tier == "quick" else 40, 150 if tier == "quick" else 300, tk)
    apa = []
    if tier == "thorough":
        # wider specification W5 at design level: the rent escrow of dynamic tick arrays is an inductive invariant of the rules that move
        # lamports between positions and arrays, for every tick rent / base rent (Apalache; depends on the module only, cached)
        apa = [{"name": "EscrowInd", "file": "EscrowInd", "inv": "IndInv", "init": "Init", "indinit": "IndInit", "cinit": "ConstInit", "implied": ["RentExempt"], "timeout": 3600}]
    return {"active": ["C13"], "drivers": jobs, "models": [], "gen": gen, "exhaustive": ex, "apalache": apa,
            "must_hit": {"liq.dynamic_tick_array": 5, "liq.mixed_array_encodings": 2},
            "explanation": "TLC explores the abstract tick array over the boundary slot set completely (3^8 contents) and prints one shortest update path per content; the harness "
                           "replays each path and every update/query out of the reached content into Anchor-fixed, Anchor-dynamic, Pinocchio-fixed and Pinocchio-dynamic arrays; "
                           "TLC validates results, contents, bitmap, used length (148 + 112 n) and next-initialized-tick answers; plus random sequences over all 88 slots with full-width payloads"}


_C06, _C08 = C06, C08


def C06(tier, seed):
    p = _C06(tier, seed)
    p["drivers"] += fn_jobs("steps", tier, seed, 8000, 100000, shards_q=2, shards_t=8)
    shards, worlds, attempts = (2, 3, 120) if tier == "quick" else (8, 12, 400)
    for s_ in range(shards):   # two-hop swaps: each leg's fee is booked on its own pool like a single swap's
        p["drivers"].append({"name": f"twohop_{s_}", "args": ["twohop", "--seed", str(seed * 100 + 70 + s_), "--worlds", str(worlds), "--attempts", str(attempts)]})
    p["must_exercise"].update({"two_hop_swap": 10, "two_hop_swap_v2": 10})
    p["drivers"].append(dict(INTREE))    # fee formula / split / budget of every swap the repository's own tests execute
    p["models"].append(FEES_COV)         # the toy instance's protocol share is really non-zero and really collected
    return p


def C08(tier, seed):
    p = _C08(tier, seed)
    p["drivers"] += fn_jobs("deltas", tier, seed, 10000, 150000, shards_q=2, shards_t=8)
    p["models"] = [mc("MC_TokenDeltas", tier, "MC_TokenDeltas")] + p["models"]
    return p


def C20(tier, seed):
    q = tier == "quick"
    drivers = []
    for tk, extra in (("spl", []), ("t22fee", []), ("spl", ["--adaptive", "1"]), ("t22", ["--adaptive", "1"])):
        tag = tk + ("_af" if extra else "")
        drivers += hist_jobs(f"sdk_{tag}_", seed, 2 if q else 6, 4 if q else 40, 200 if q else 300, tk, ["--sdk", "1"] + extra)
    # histories with reward emissions: the SDK's fee / reward quotes against what update_fees_and_rewards records (wider specification, W6)
    drivers += hist_jobs("sdk_rw_", seed, 2 if q else 4, 4 if q else 40, 200 if q else 300, "spl", ["--sdk", "1", "--rewards", "1"])
    drivers += fn_jobs("sdkconv", tier, seed, 1500, 60000, shards_q=2, shards_t=8, extra=["--stride", "16" if q else "1"])
    return {"active": ["C20"], "drivers": drivers, "models": [], "exhaustive": False,
            "must_exercise": {"swap": 50, "swap_v2": 50},
            "explanation": "every swap / swap_v2 of recorded histories (static and adaptive-fee pools, transfer-fee mints, both tick-array encodings) is quoted by the Rust core SDK's compute_swap "
                           "from the same pre-state bytes (pool, the supplied tick arrays, oracle, clock): equal in/out/fee whenever the program's swap computation succeeded, the SDK may answer "
                           "on a refused swap only for partial fill / tick-array run-off; tick<->price conversions (strided in quick, every tick in thorough), amount deltas, token estimates for "
                           "liquidity (incl. the L*price >= 2^192 overflow corner and price exactly on a range boundary) against the program's Anchor and Pinocchio functions; slippage min/max "
                           "against floor/ceil formulas of the spec"}


# Situations (catalogue in WpTrace.tla) that a check's recorded executions must contain: a run without them would be
# vacuous for the predicates they are the antecedents of (tool error, never a pass).  Thresholds are far below what the
# drivers produce (a tenth or less of the quick tier's counts) so that they never fire on a healthy run.
MUST_HIT = {
    "C01": {"swap.crosses_a_tick": 5, "swap.steps>=2": 5, "liq.decrease_to_zero": 20, "liq.deinitializes_a_tick": 20, "liq.bound_shared_with_other_position": 20,
            "collect_fees.nonzero": 10, "collect_protocol_fees.nonzero": 3, "swap.exact_out": 10, "liq.price_below_range": 20, "liq.price_above_range": 20},
    "C03": {"swap.explicit_limit": 30, "swap.uses_less_than_specified": 20, "swap.threshold_equals_realised": 20, "swap.exact_out": 20, "twohop.exact_out": 5,
            "twohop.explicit_limit": 5, "twohop.mixed_direction": 5, "swap.full_range_only_pool": 5, "refused.swap_limit_on_wrong_side_inside_current_tick": 10},
    "C05": {"swap.crosses_a_tick.a_to_b": 5, "swap.crosses_a_tick.b_to_a": 5, "liq.initializes_a_tick": 20, "liq.deinitializes_a_tick": 20,
            "liq.same_range_as_other_position": 10, "liq.dynamic_tick_array": 20, "liq.fixed_tick_array": 20, "liq.tick_net_becomes_zero_but_stays_initialized": 3},
    "C06": {"swap.steps>=2": 10, "swap.step_with_zero_liquidity": 5, "swap.protocol_rate_zero": 10, "collect_protocol_fees.nonzero": 3, "swap.step_stops_short_of_target": 20,
            "swap.exact_out": 10, "twohop.leg_crosses_a_tick": 2},
    "C07": {"swap.crosses_a_tick": 10, "liq.credits_fees": 20, "update_fees.credits_fees": 3, "liq.lower_is_others_upper": 20, "liq.initializes_a_tick_at_or_below_price": 10,
            "liq.range_changed": 3},
    "C08": {"liq.price_below_range": 30, "liq.price_in_range": 30, "liq.price_above_range": 30, "liq.first_deposit": 20, "liq.partial_decrease": 20, "liq.decrease_to_zero": 30,
            "liq.range_changed": 3,
            "liq.by_token_amounts.price_exactly_on_lower_bound": 2, "liq.by_token_amounts.price_exactly_on_upper_bound": 2},
    "C10": {"swap.crosses>=3_ticks": 50, "swap.crosses_ticks_of_two_arrays": 50, "swap.ends_on_initialized_tick.a_to_b": 50, "swap.ends_on_initialized_tick.b_to_a": 50,
            "swap.starts_on_initialized_tick_shifted": 50, "swap.starts_on_initialized_tick_unshifted": 20,
            "twohop.repackaged": 10, "twohop.repackaged.second_leg_leaves_its_first_array": 2, "twohop.repackaged.first_leg_leaves_its_first_array": 2},
    "C11": {"reward.interval_accrues": 10, "reward.zero_elapsed_time": 50, "reward.two_or_more_rewards": 50, "liq.credits_rewards": 5, "reward.swap_crosses_tick_with_rewards": 5,
            "collect_reward.index>=1": 3,
            "reward.emissions_set_with_a_day_exactly_funded": 2, "refused.emissions_one_token_short_of_a_day": 2},
    "C12": {"liq.mixed_array_encodings": 5, "liq.deinitializes_a_tick": 20, "liq.initializes_a_tick": 10},
    "C14": {"af.reference_decayed_nonzero": 3, "af.reference_reset_after_an_hour": 10, "af.reference_kept_inside_filter_period": 50, "af.reference_reset_beyond_decay": 3,
            "af.accumulator_at_maximum": 20, "af.step_spans_several_groups": 20, "af.skipped_step": 30, "af.major_swap": 10, "af.negative_tick_group": 30,
            "af.price_moved_exactly_by_the_major_swap_threshold": 3},
    "C16": {"swap.input_mint_has_transfer_fee": 30, "swap.output_mint_has_transfer_fee": 30, "liq.transfer_fee_mint": 50},
    "C17": {"twohop.exact_out": 10, "twohop.explicit_limit": 10, "twohop.mixed_direction": 10, "twohop.same_direction": 10, "twohop.leg_crosses_a_tick": 3,
            "refused.twohop_first_leg_before_trade_enabled": 5, "refused.twohop_second_leg_before_trade_enabled": 5, "refused.twohop_v1_second_leg_before_trade_enabled": 3},
    "C20": {"swap.adaptive_fee_pool": 30, "swap.crosses_a_tick": 5, "swap.input_mint_has_transfer_fee": 10, "af.skipped_step": 10, "sdk.quoted_over_six_tick_arrays": 10},
}


def _with_must_hit(pid, f):
    def g(tier, seed):
        plan = f(tier, seed)
        mh = dict(MUST_HIT.get(pid, {}))
        mh.update(plan.get("must_hit", {}))
        plan["must_hit"] = mh
        return plan
    return g


PLANS = {"C20": C20, "C01": C01, "C02": C02, "C03": C03, "C04": C04, "C10": C10, "C14": C14, "C15": C15, "C16": C16, "C17": C17, "C18": C18, "C19": C19, "C05": C05, "C06": C06, "C07": C07, "C11": C11, "C12": C12, "C13": C13, "C08": C08, "C09": C09}
PLANS = {k: _with_must_hit(k, v) for k, v in PLANS.items()}
