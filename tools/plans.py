"""Per-property check plans: which drivers record executions of the real program, which TLC models
are checked exhaustively, and which predicate groups of the trace specification are enforced."""

COMMON_ASSUMPTIONS = [
    "native x86-64 execution of the program's Rust source (overflow-checks off, as in the release profile) instead of SBF",
    "nanosvm harness emulates loader serialization, CPI privilege rules and the System program; SPL Token 8.0.0 / Token-2022 8.0.1 / ATA 7.0.0 processors are the real crates",
    "TLC + the BigInt Java override (java.math.BigInteger) evaluate the specification",
    "Metaplex metadata CPIs are a recording stub",
]


def hist_jobs(prefix, seed, shards, histories, steps, tokens="spl", extra=None):
    jobs = []
    for s in range(shards):
        args = ["hist", "--seed", str(seed * 1000 + s), "--histories", str(histories), "--steps", str(steps), "--tokens", tokens]
        if extra:
            args += extra
        jobs.append({"name": f"{prefix}{s}", "args": args})
    return jobs


def mc(name, tier, workers_hint=None):
    """toy-scale instances of spec/Whirlpool.tla (see the MC_*.cfg files)"""
    cfg = f"{name}_q.cfg" if tier == "quick" else f"{name}.cfg"
    return {"name": name, "module": "MC_Whirlpool", "cfg": cfg, "timeout": 7200}


COV = {"name": "MC_Whirlpool_cov", "module": "MC_Whirlpool", "cfg": "MC_Whirlpool_cov.cfg", "timeout": 600, "workers": 1}


def hist_plan(active, tier, seed, tokens=("spl",), must=None, explanation="", shards_q=6, shards_t=16, models=("MC_Whirlpool",)):
    drivers = []
    for tk in tokens:
        if tier == "quick":
            drivers += hist_jobs(f"hist_{tk}_", seed, shards_q, 4, 150, tk)
        else:
            drivers += hist_jobs(f"hist_{tk}_", seed, shards_t, 40, 300, tk)
    return {"active": active, "drivers": drivers, "models": [mc(m, tier) for m in models] + [COV], "must_exercise": must or {}, "explanation": explanation}


def C01(tier, seed):
    p = hist_plan(["C01"], tier, seed, models=("MC_Whirlpool", "MC_Gain"), must={"swap": 50, "decrease_liquidity": 20, "collect_fees": 20, "collect_protocol_fees": 5},
                  explanation="Solvent + NoFreeLunch evaluated after every instruction of recorded random histories of the real program "
                              "(incl. drain sequences whose every call must succeed); the same invariants model-checked on the toy instance")
    return p


def C03(tier, seed):
    return hist_plan(["C03"], tier, seed, tokens=("spl", "t22fee"), must={"swap": 50, "swap_v2": 50},
                     explanation="SwapBounds on balance deltas of every successful swap; toy instance: SwapBounds as invariant over all interleavings")


def C05(tier, seed):
    return hist_plan(["C05"], tier, seed, tokens=("spl", "t22"), must={"swap": 50, "increase_liquidity": 20, "decrease_liquidity": 20},
                     explanation="LiqSum/TickSums/TickInit on the projected state after every instruction; toy instance: same invariants")


def C06(tier, seed):
    return hist_plan(["C06"], tier, seed, must={"swap": 50, "collect_protocol_fees": 5},
                     explanation="per-step fee formula, protocol cut, growth fold, trader/vault deltas and Traded event of every swap; protocol fee collection")


def C08(tier, seed):
    return hist_plan(["C08"], tier, seed, tokens=("spl", "t22"), must={"increase_liquidity": 20, "decrease_liquidity": 20, "increase_liquidity_v2": 20, "decrease_liquidity_v2": 20},
                     explanation="user/vault deltas of every increase/decrease equal the exact TokenDeltas rounded up/down")


PLANS = {"C01": C01, "C03": C03, "C05": C05, "C06": C06, "C08": C08}
