#!/bin/bash
# Confirms a seeded change: with patch.diff the workspace compiles and the 654 tests pass; the demonstration
# fails with the change and passes without it. Usage: verify_seed.sh <id> [<dir-with-patch.diff-and-demo.diff>]
# Works in a scratch worktree outside /repo and /verif; the worktree is kept between calls (warm build cache)
# and removed by `verify_seed.sh --cleanup`.
set -u
WT=/tmp/wt/verify
if [ "${1:-}" = "--cleanup" ]; then git -C /repo worktree remove --force $WT 2>/dev/null; rm -rf $WT; exit 0; fi
ID=$1; DIR=${2:-/verif/seeded/$ID}
if [ ! -d $WT ]; then git -C /repo worktree add -q --detach $WT HEAD || exit 2; fi
cd $WT && git checkout -q -- . && git clean -fdq -e target && git checkout -q --detach $(git -C /repo rev-parse HEAD) || exit 2
OUT=$DIR/verify.log; : > $OUT
run() { echo "\$ $*" >> $OUT; "$@" >> $OUT 2>&1; }
# demo names: all new test fn names in demo.diff
git apply $DIR/patch.diff || { echo "patch does not apply"; exit 2; }
run cargo test --workspace --offline 2>&1
SUITE=$(grep -E "^test result: .* [0-9]+ passed" $OUT | head -1)
echo "with patch, existing suite: $SUITE"
git apply $DIR/demo.diff || { echo "demo does not apply"; exit 2; }
cargo test --workspace --offline > $DIR/.with.log 2>&1; WITH=$(grep -E "^test result:" $DIR/.with.log | head -1)
echo "with patch+demo: $WITH"
git apply -R $DIR/patch.diff || { echo "cannot revert patch"; exit 2; }
cargo test --workspace --offline > $DIR/.without.log 2>&1; WITHOUT=$(grep -E "^test result:" $DIR/.without.log | head -1)
echo "demo only: $WITHOUT"
{ echo "with patch only: $SUITE"; echo "with patch+demo: $WITH"; grep -E "^test .* FAILED" $DIR/.with.log | head -20; echo "demo only: $WITHOUT"; } >> $OUT
rm -f $DIR/.with.log $DIR/.without.log
git checkout -q -- . && git clean -fdq -e target
