#!/bin/bash
# which seeded changes does the in-tree trace validation alone catch?  usage: intree_vs_seed.sh <seed-id>...
for SEED in "$@"; do
  D=/tmp/mut/it_$SEED; rm -rf $D; mkdir -p $D
  git -C /repo worktree add -q --detach $D/repo HEAD || exit 2
  (cd $D/repo && git apply /verif/seeded/$SEED/patch.diff) || { echo "$SEED: patch does not apply"; git -C /repo worktree remove --force $D/repo; continue; }
  VERIF_REPO=$D/repo python3 - "$SEED" "$D" <<'P'
import importlib.machinery, importlib.util, os, sys, json
loader = importlib.machinery.SourceFileLoader("vcheck", "/verif/check")
spec = importlib.util.spec_from_loader("vcheck", loader); C = importlib.util.module_from_spec(spec); loader.exec_module(C)
seed, d = sys.argv[1], sys.argv[2]
C.ensure_java()
r = C.run_intree({"name": "intree_swaps", "kind": "intree", "args": []}, d)
if "error" in r:
    print(seed, "intree error:", r["error"][:200]); sys.exit(0)
t = C.run_tlc_trace(r["trace"], ["C02", "C06", "C14"], d, "it", "WpFn")
print(seed, "records", r["stats"]["stats"]["events"], "->", "REJECTED %s" % t["rejected"] if "rejected" in t else ("accepted" if t.get("accepted") else t))
P
  git -C /repo worktree remove --force $D/repo; rm -rf $D
done
