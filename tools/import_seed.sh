#!/bin/bash
# imports a seeded change produced by a sub-agent under /tmp/r<round>/<id>/out into seeded/<id><suffix>
# usage: import_seed.sh <id> <round> <suffix>
ID=$1; R=$2; SUF=$3; SRC=/tmp/r$R/$ID/out; DST=/verif/seeded/${ID}$SUF
mkdir -p $DST && cp $SRC/patch.diff $SRC/demo.diff $SRC/notes.md $DST/ && cp $SRC/verify.txt $DST/verify.txt 2>/dev/null
python3 - "$ID" "$SUF" "$R" <<'P'
import json,sys,os
i=sys.argv[1]; d=f"/verif/seeded/{i}{sys.argv[2]}"
notes=open(d+"/notes.md").read()
ver=open(d+"/verify.txt").read().strip().splitlines() if os.path.exists(d+"/verify.txt") else []
json.dump({"property": i, "round": int(sys.argv[3]), "breaks": notes[:900], "needs_to_manifest": "see notes.md",
           "confirmed_by": "the sub-agent in its own scratch worktree (cargo test --workspace --offline): patch only 654 pass; patch+demo fails; demo only passes; re-confirmed with tools/verify_seed.sh (verify.log)",
           "verification_output": ver[:8], "origin": "fresh sub-agent given only the property text, one-line descriptions of the earlier changes to avoid, and a scratch worktree"}, open(d+"/meta.json","w"), indent=1)
P
echo imported $DST
