#!/usr/bin/env python3
"""Regenerates MANIFEST.json from the table below (claimed checks) + properties.jsonl (everything else -> not_applicable)."""
import json, os, subprocess
ROOT = os.path.dirname(os.path.dirname(os.path.abspath(__file__)))
props = [json.loads(l) for l in open(os.path.join(ROOT, "properties.jsonl"))]
TRUST = ("TLC/SANY; BigInt Java override over java.math.BigInteger; the nanosvm harness (loader serialization, CPI rules, System program) and its "
         "byte-level projection; spl-token 8.0.0 / token-2022 8.0.1 / ATA compiled natively; native execution of the Rust source instead of SBF.")
CLAIMS = {
 "C01": ("TLA+ spec (Whirlpool.tla) model-checked by TLC at toy scale (Solvent, NoFreeLunch over all interleavings; also with reset_position_range / reposition_liquidity_v2: MC_Rerange; "
         "vacuity guards that fees really accrue and are paid out; random walks of depth 40 through a 7-tick / 3-position instance under all invariants: MC_Deep) + TLC trace validation "
         "(WpTrace.tla) of recorded executions of the real program: Solvent/NoFreeLunch after every instruction, drain sequences must succeed",
         "Exhaustive for the toy instance (bounded operations); sampled (seeded random histories) at full scale. The specification is the oracle in both.", "4 C01"),
 "C02": ("TLC checks StepOK(x, Step(x)) for every input tuple of a toy domain (MC_SwapStep, exhaustive) + TLC evaluates the StepOK contract (exact big-integer "
         "curve amounts, rounding direction, budget exhaustion, one-price-unit maximality) on every successful compute_swap call of a boundary grid and of random inputs, "
         "on every swap step recorded in histories of the real program, and on every swap step the repository's own 654 tests execute (test suite built with the hook cfg, records validated by TLC)",
         "the full-scale input space is sampled (boundary grid from the case analysis of token_math.rs + seeded random), not enumerated", "4 C02"),
 "C09": ("TLC evaluates TickMathOK on the recorded tick->sqrt-price table (monotone, endpoints, ratio within 2^-32) and the inverse contract on every tick price, "
         "one unit either side, random interior prices and prices special for the log2 bit-walk (2^k +- 2^j +- 1); thorough tier enumerates all 887273 ticks (exhaustive=true there)",
         "a contract over a pure function: the specification contributes the oracle, not exploration", "4 C09"),
 "C03": ("TLC model checking of SwapBounds as an action property on the toy instance + trace validation of every successful swap (v1, v2, "
         "transfer-fee mints) of recorded histories against SwapBounds evaluated on balance deltas; toy instance also with explicit price limits (inside / exactly on a tick) and real slippage thresholds (MC_Limits); two-hop bounds per leg", "as C01", "4 C03"),
 "C04": ("spec -> impl replay of an authority matrix + trace validation: every privileged instruction (both dispatchers) of a prepared world is probed on copies of the bank with "
         "unsigned / foreign / other-authority / delegate 0,1,2 / emptied-token-account / coherent-foreign-(config,authority) variants; TLC checks ok => Guard (module WpIface: the authority "
         "recorded in the abstract state signed), base instructions succeed, failures are atomic; toy instance: OwnerSigned",
         "exhaustive over the finite matrix of the prepared world; the spec's Guard is the oracle", "4 C04"),
 "C10": ("TLC generates every layout of initialized ticks over boundary slots of the three-array window (PackagingModel); the harness replays each in three encodings under nine packagings "
         "(two-hop swaps: per-leg packagings with supplemental tick arrays compared with the canonical one); "
         "TLC validates each recorded swap against the path predicate of the spec (crossed = initialized ticks between start and end tick over all ticks of the pool, once, in order, "
         "net applied, no step jumps a tick) and the packaging-invariance / fail-rather-than-skip / foreign-array predicates; toy instance: crossing rules compose (LiqSum, TickSums)",
         "quick samples 240 layouts; thorough runs every one of the 4764 layouts once (partitioned over 12 shards)", "4 C10"),
 "C14": ("TLC model checking of AdaptiveFee.tla (the FeeRateManager's nested loops with the skip optimisation, all start prices / limits / references / liquidity layouts of a toy line: every traded price "
         "unit is charged its own tick group's rate, stored accumulator of the end group, cap) + trace validation of every recorded swap on adaptive-fee pools (random valid constants, arbitrary non-decreasing clocks, zero-liquidity gaps, limits inside tick-group boundary "
         "ticks): the spec's UpdateReference / Acc / AdaptiveRate / TotalRate are evaluated per step for every tick group the step's price segment spans, and on the stored variables "
         "after the swap; trade-enable time; major-swap timestamp", "needs the swap-step hook; the tick groups spanned by a step are computed with the program's own tick math (C09 covers it); the toy model (AdaptiveFee.tla) abstracts the step to stopping anywhere up to the bounded target and takes the updated reference as given", "4 C14"),
 "C15": ("spec -> impl replay of a substitution matrix + trace validation: for every slot of every fund-moving/privileged instruction, single-account substitutions by accounts of the same "
         "kind; TLC checks ok => interface relations of module WpIface (vault of the pool for that token, mint, position/tick array/oracle of the pool, reward vault of the index, "
         "token program owning the mint, memo program; the tick array must be the one that HOLDS the position's bound), coherent foreign-position substitutions (position + token account + owner's signature), two-hop distinct pools sharing the intermediate mint (incl. same-pool attempts at tick-array edges); one recorded known finding (known_findings.json)",
         "quick samples 10 substitutes per slot, thorough substitutes every candidate (exhaustive over the prepared world)", "4 C15"),
 "C16": ("TLC checks the transfer-fee contracts on a complete toy domain (MC_TransferFee) + evaluates ExclOK/InclOK on recorded calls of the Anchor and Pinocchio functions (boundary grid, "
         "both epoch schedules, fee extension at different TLV positions) + trace validation of swap_v2 / increase / decrease v2 on transfer-fee pools where the real Token-2022 "
         "processor withholds the fee (vault receives >= curve amount, smallest request, thresholds on actual amounts, event fields)",
         "two-hop swaps with transfer fees are covered through C17 (equal to the two single swaps, each of which is held to the per-transfer contract when run as swap_v2) rather than by a predicate of their own", "4 C16"),
 "C17": ("trace validation with a differential oracle stated by the spec (TwoHop = Swap1 . Swap2 with in2 = out1): every recorded two-hop (v1, v2; 4 direction combinations; both modes; "
         "limits; thresholds realised +-1; invalid pool pairs) is compared, account by account, with its two single swaps executed on a copy of the bank; failure reasons are forced",
         "transfer-fee intermediate mints are not part of the equality claim (the two-hop moves vault to vault)", "4 C17"),
 "C18": ("TLC model-checks the position life-cycle state machine (LifecycleModel) and generates behaviours; the harness replays them into the real program and probes every operation in "
         "every state; TLC validates each recorded instruction against the C18 predicates of the specification evaluated on the logged state (open / close / reset / reposition / lock / "
         "transfer-locked / bundle bitmap / token supply one / no mint authority / locked untouchable)", "quick samples 48 of the 256 bundle indexes, thorough opens / re-opens / closes every one of them", "4 C18"),
 "C19": ("TLC generates the mint-shape cases (MintAdmissionModel) and the harness replays them through the real initialise instructions; TLC validates ok => Admitted and evaluates the "
         "ParamsInBounds invariant of the specification on every projected state (mint admission runs, setter-bound probes, random histories incl. adaptive-fee pools)",
         "quick samples 2800 of the 85550 mint cases; thorough replays all of them; extension bodies are zero-filled with the right lengths (the admission rule reads types, freeze authority and default state only)", "4 C19"),
 "C05": ("TLC model checking of LiqSum/TickSums/TickInit on the toy instance (also with the re-ranging instructions, old and new range sharing bounds: MC_Rerange) + the same invariants evaluated by TLC on the projected state after every "
         "recorded instruction (both tick-array encodings, Pinocchio handlers, adaptive-fee pools, account-substitution probes); thorough tier: Apalache proves the invariants INDUCTIVE over the liquidity rules for unbounded integer magnitudes (LiqInd.tla: Init => IndInv, IndInv /\\ Next => IndInv')", "as C01; the Apalache obligation is a design-level proof (7 ticks, 3 positions, any integer liquidity), bound to the code through the same invariants on recorded states", "4 C05"),
 "C06": ("TLC model checking of StepsOK/SplitExact action properties on the toy instance + trace validation: per-step fee formula, protocol cut, growth "
         "fold, trader/vault deltas, Traded event, protocol-fee collection of every recorded swap (pools with and without Token-2022 transfer fees); two-hop swaps: each leg booked on its own pool", "as C01; needs the swap-step hook", "4 C06"),
 "C07": ("TLC model checking of FeeUpper/FeeLower (ghost exact-share ledgers, accumulators started one unit below wrap-around, ledgers running on across reset_position_range / reposition_liquidity_v2: MC_RerangeLedger; "
         "a vacuity guard requires that fees are really credited across the wrap) on the toy instance + trace validation: "
         "the spec accumulates per recorded swap step the exact pro-rata share of every position whose range contains the segment tick (2^128-scaled interval) and checks "
         "credited fees <= share and >= share - bounded rounding after every instruction", "the lower bound is 'bounded rounding' (one unit per in-range step / credit): a change that loses less is not reported", "4 C07"),
 "C11": ("TLC model checking of Rewards.tla at toy scale (RewardUpper / RewardLower ghost share ledgers, NoInflation, zero-liquidity and stamp-monotonicity action properties, accumulator started below wrap-around) + "
         "trace validation: AccrueRewards (floor(dt*emissions/liquidity); nothing at zero liquidity / uninitialized / 128-bit overflow; monotone timestamps) on every recorded "
         "instruction; reward share ledgers (upper bound + bounded-rounding lower bound); collect = min(owed, vault); set-emissions settles first and needs a day of funding",
         "the toy model (Rewards.tla) abstracts a swap to single tick crossings and has one reward; the full rules (three rewards, real swaps) are evaluated on recorded executions", "4 C11"),
 "C12": ("trace validation: every Pinocchio-served increase/decrease (v1, v2) in recorded histories is re-executed on a copy of the bank by the Anchor handler; TLC checks equal "
         "return code, byte-identical accounts and equal events (predicate DualOK), entrypoint routing against the real extern-C symbol, memory-mapped getters/setters vs Anchor "
         "serializers and the usable-tick lookup vs the spec formula",
         "byte equality is observed by the harness and asserted by the spec (encode/decode fidelity is outside what a TLA+ model adds); by-token-amounts and reposition have no Anchor twin", "4 C12"),
 "C13": ("TLC explores the abstract tick array over the boundary slot set completely and generates one behaviour per reachable content; each is replayed (with every outgoing update and "
         "query) into Anchor-fixed/Anchor-dynamic/Pinocchio-fixed/Pinocchio-dynamic arrays and the recorded results are validated by TLC against module WpTickArray (contents, errors, "
         "bitmap, used length 148+112n, next-initialized-tick); random sequences over all 88 slots with full-width payloads, sequences that fill the array completely; on recorded histories of pools mixing both encodings every array is well formed (length 148+112n / 9988) after every instruction", "exhaustive for the boundary slot set in the thorough tier; sampled in quick", "4 C13"),
 "C20": ("trace validation with a differential oracle stated by the spec (predicate C20Quote: the SDK's quote of the recorded pre-state equals the recorded program result step totals; "
         "SDK answers on refused swaps only for partial fill or tick-array run-off - also at the level of the user-facing quotes, incl. swaps refused before the swap computation such as trading not yet enabled) on every swap of recorded histories incl. adaptive-fee pools, + TLC evaluation of the conversion predicates "
         "(tick<->price, amount deltas, token estimates for liquidity, next price when both answer, slippage floor/ceil) on recorded calls of SDK and program functions",
         "the SDK crate is compiled natively with a local shim of ethnum::U256 (the real ethnum crate is not in the offline registry; the shim mirrors its documented semantics incl. checked_shl); "
         "the TypeScript SDK's WASM build of the same crate is not executed; increase/decrease liquidity quotes are covered through try_get_token_estimates_from_liquidity only", "4 C20"),
 "C08": ("trace validation: user/vault balance deltas of every recorded increase/decrease (Pinocchio v1+v2) equal the spec's exact TokenDeltas "
         "(up on deposit, down on withdrawal) and respect max/min; increase-by-token-amounts adds the largest liquidity whose cost fits both maxima; reposition moves exactly new-range cost minus old-range proceeds; toy instance exercises the same TokenDeltas definition", "as C01", "4 C08"),
}
TECH = "explicit TLA+ specification checked with TLC: exhaustive toy-scale model checking + trace validation of recorded executions of the real program"
checks = []
for pid, (text, note, ref) in CLAIMS.items():
    checks.append({
        "property_id": pid,
        "quick_cmd": f"./check {pid} --tier quick",
        "thorough_cmd": f"./check {pid} --tier thorough",
        "evidence_file": f"/verif/evidence/{pid}.json",
        "replay_cmd_template": f"./check {pid} --replay {{path}}",
        "engine": "tlc-trace-validation",
        "level_claimed": {"category": "model_checking", "text": text, "design_ref": "DESIGN.md section " + ref},
        "level_note": TRUST if note == "as C01" else note + "; " + TRUST,
        "technique": TECH,
    })
hooks = subprocess.run(["git", "-C", "/repo", "log", "--format=%H %s", "--grep=^verif:"], capture_output=True, text=True).stdout.strip().splitlines()
m = {
 "version": 1,
 "setup_cmd": "cd /verif && mkdir -p java/classes work && javac -cp /opt/veriftools/tla/tla2tools.jar -d java/classes java/verifbig/*.java && cd harness && cargo build --offline && cd /repo && CARGO_TARGET_DIR=/verif/work/intree-target RUSTFLAGS='--cfg orca_so_whirlpools_verif' cargo test --workspace --offline --no-run",
 "hooks": {"guard": "orca_so_whirlpools_verif",
           "enable": "rustflags --cfg orca_so_whirlpools_verif in /verif/harness/.cargo/config.toml (the harness has a path dependency on /repo/programs/whirlpool)",
           "baseline_off_cmd": "cd /repo && cargo test --workspace --no-fail-fast --offline",
           "source_commits": [h.split()[0] for h in hooks], "add_only": True},
 "engines": [{"name": "tlc-trace-validation", "path": "/verif/check", "serves_properties": sorted(CLAIMS),
              "kind_free_text": "TLA+ specification (spec/*.tla) + TLC (toy-scale exhaustive model checking and full-scale trace validation with a BigInt override) + Rust harness executing the real instruction handlers natively"}],
 "checks": checks,
 "notes": "every evidence file carries the situation-coverage table (coverage.situations, coverage.instruction_x_feature, coverage.errors_seen) tallied by TLC while validating; plans list situations that must occur (vacuous runs are tool errors). see DESIGN.md section 0 (as built: what decides each property, deviations from the plan, the repaired SDK defect, false alarms corrected, which checks catch which seeded changes); known_findings.json lists repaired / known defects; seeded/ holds the property-breaking changes used to evaluate the checks (never applied to /repo)",
 "not_applicable": [{"property_id": p["id"], "reason": "check not built yet (work in progress; planned per DESIGN.md section 4)"} for p in props if p["id"] not in CLAIMS],
}
json.dump(m, open(os.path.join(ROOT, "MANIFEST.json"), "w"), indent=1)
print("claimed:", sorted(CLAIMS))
