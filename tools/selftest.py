#!/usr/bin/env python3
"""Binding self-test: a recorded trace of the real program is accepted by the trace specification;
the same trace with one field corrupted, or one event dropped, must be rejected.  Exit 0 iff every
corruption is rejected (and the pristine traces are accepted)."""
import json, os, sys, copy, subprocess, importlib.machinery, importlib.util
ROOT = os.path.dirname(os.path.dirname(os.path.abspath(__file__)))
loader = importlib.machinery.SourceFileLoader("vcheck", os.path.join(ROOT, "check"))
spec = importlib.util.spec_from_loader("vcheck", loader)
C = importlib.util.module_from_spec(spec)
loader.exec_module(C)
ALL = ["C%02d" % i for i in range(1, 21)]


def load(p):
    return [json.loads(l) for l in open(p)]


def save(p, evs):
    with open(p, "w") as f:
        for e in evs:
            f.write(json.dumps(e) + "\n")


def bump(v, d=1):
    return str(int(v) + d) if isinstance(v, str) else v + d


def first(evs, pred):
    return next(i for i, e in enumerate(evs) if pred(e))


def main():
    C.ensure_java(); C.build()
    work = os.path.join(ROOT, "work", "selftest"); os.makedirs(work, exist_ok=True)
    hist = os.path.join(work, "hist.ndjson"); fn = os.path.join(work, "fn.ndjson")
    subprocess.run([C.BIN, "hist", "--seed", "11", "--histories", "2", "--steps", "120", "--out", hist], check=True, capture_output=True)
    subprocess.run([C.BIN, "fn", "--what", "steps", "--n", "300", "--seed", "11", "--out", fn], check=True, capture_output=True)
    H, F = load(hist), load(fn)
    cases = []

    def swap_ok(e):
        return e.get("k") == "ix" and e.get("name") in ("swap", "swap_v2") and e.get("ok") and e["diff"]["set"]["tok"]

    def inc_ok(e):
        return e.get("k") == "ix" and e.get("name", "").startswith("increase_liquidity") and e.get("ok") and e["diff"]["set"]["pos"]

    # 1. a token balance after a swap is off by one
    h = copy.deepcopy(H); i = first(h, swap_ok)
    k = sorted(h[i]["diff"]["set"]["tok"])[0]; h[i]["diff"]["set"]["tok"][k]["amount"] = bump(h[i]["diff"]["set"]["tok"][k]["amount"])
    cases.append(("token balance +1 after a swap", h, "WpTrace", i + 1))
    # 2. pool liquidity after an increase is off by one
    h = copy.deepcopy(H); i = first(h, lambda e: inc_ok(e) and e["diff"]["set"]["pool"])
    pk = sorted(h[i]["diff"]["set"]["pool"])[0]; h[i]["diff"]["set"]["pool"][pk]["liq"] = bump(h[i]["diff"]["set"]["pool"][pk]["liq"])
    cases.append(("pool liquidity +1 after an increase", h, "WpTrace", i + 1))
    # 3. a recorded swap step's input amount is off by one
    h = copy.deepcopy(H); i = first(h, lambda e: swap_ok(e) and any(s for sw in e["swaps"] for s in sw["steps"]))
    st = h[i]["swaps"][0]["steps"][0]; key = "in" if "in" in st else next(k for k in st if k.startswith("amount_in") or k == "calculated1")
    st[key] = bump(st[key])
    cases.append((f"swap step field {key} +1", h, "WpTrace", i + 1))
    # 4. a successful increase is dropped from the trace
    h = copy.deepcopy(H); i = first(h, inc_ok); del h[i]
    cases.append(("successful increase_liquidity event dropped", h, "WpTrace", None))
    # 5. a position's liquidity is off by one
    h = copy.deepcopy(H); i = first(h, inc_ok)
    pk = sorted(h[i]["diff"]["set"]["pos"])[0]; h[i]["diff"]["set"]["pos"][pk]["liq"] = bump(h[i]["diff"]["set"]["pos"][pk]["liq"])
    cases.append(("position liquidity +1 after an increase", h, "WpTrace", i + 1))
    # 6. function-level: a compute_swap_step result is off by one
    f = copy.deepcopy(F); i = first(f, lambda e: e.get("k") == "step" and e.get("ok"))
    rk = next(k for k in ("amountIn", "in", "amount_in") if k in f[i] or k in f[i].get("res", {}))
    tgt = f[i] if rk in f[i] else f[i]["res"]; tgt[rk] = bump(tgt[rk])
    cases.append((f"compute_swap_step {rk} +1", f, "WpFn", i + 1))

    bad = 0
    for name, tr, mod in (("pristine hist", hist, "WpTrace"), ("pristine fn", fn, "WpFn")):
        r = C.run_tlc_trace(tr, ALL, work, "st_" + mod, mod)
        print(f"[selftest] {name}: {'accepted' if r.get('accepted') else 'NOT ACCEPTED ' + str(r)[:400]}")
        bad += 0 if r.get("accepted") else 1
    for n, (name, evs, mod, line) in enumerate(cases):
        p = os.path.join(work, f"corrupt{n}.ndjson"); save(p, evs)
        r = C.run_tlc_trace(p, ALL, work, f"st_c{n}", mod)
        rj = r.get("rejected")
        ok = bool(rj) and (line is None or rj["line"] >= line)
        print(f"[selftest] corruption '{name}': {'rejected at line %d by %s/%s' % (rj['line'], rj['prop'], rj['pred']) if rj else 'NOT REJECTED ' + str(r)[:300]}" + ("" if ok else "  <-- FAIL"))
        bad += 0 if ok else 1
    sys.exit(1 if bad else 0)


main()
