#!/usr/bin/env python3
import json,sys
lines=open(sys.argv[1]).read().splitlines()
n=int(sys.argv[2]); e=json.loads(lines[n-1])
d=e.get('diff',{})
brief={k:v for k,v in e.items() if k not in('diff','state','prices','slots','swaps')}
print(json.dumps(brief)[:3000])
if d:
    for sec,v in d['set'].items():
        if v: print('SET',sec,json.dumps(v)[:1500])
    for sec,v in d['del'].items():
        if v: print('DEL',sec,v)
if len(sys.argv)>3:
    print(json.dumps(e.get('swaps'))[:6000]); print(json.dumps(e.get('slots'))[:3000])
