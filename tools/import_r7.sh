#!/bin/bash
# imports a file-directed (round 7) seeded change /tmp/r7/<group>/out -> seeded/<property>g[n]; the property id is the first line of notes.md
G=$1; SRC=/tmp/r7/$G/out
P=$(head -1 $SRC/notes.md | grep -o "C[0-9][0-9]" | head -1)
[ -z "$P" ] && { echo "no property in notes.md"; exit 1; }
N=${P}g; i=2; while [ -d /verif/seeded/$N ]; do N=${P}g$i; i=$((i+1)); done
mkdir -p /verif/seeded/$N && cp $SRC/patch.diff $SRC/demo.diff $SRC/notes.md $SRC/verify.txt /verif/seeded/$N/ 2>/dev/null
python3 - "$P" "$N" "$G" <<'PY'
import json,sys
p,n,g=sys.argv[1:4]; d=f"/verif/seeded/{n}"
json.dump({"property":p,"round":7,"file_group":g,"breaks":open(d+"/notes.md").read()[:900],"needs_to_manifest":"see notes.md",
 "origin":"fresh sub-agent given the twenty property texts and a group of source files never touched by an earlier seeded change; it chose the property"},open(d+"/meta.json","w"),indent=1)
PY
echo "$G -> $N"
