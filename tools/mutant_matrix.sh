#!/bin/bash
# runs every seeded change against the quick check of its own property; writes seeded/MATRIX.txt
OUT=/verif/seeded/MATRIX.txt; : > $OUT.tmp
for d in /verif/seeded/*/; do
  s=$(basename $d); [ -f $d/patch.diff ] || continue
  p=$(python3 -c "import json;print(json.load(open('$d/meta.json'))['property'])")
  r=$(/verif/tools/mutant_run.sh $s $p 2>&1 | grep "^seed=" | cut -c1-160)
  echo "$r" | tee -a $OUT.tmp
done
mv $OUT.tmp $OUT; rm -rf /tmp/mut
